#!/usr/bin/env python3
"""Confirm a seeded defect produced by a sub-agent and run the checks against it.

usage: seedtest.py <PROP> <variant> [--tier quick|thorough] [--all] [--keep-only-if-confirmed]
  source:  /tmp/seed/<PROP>/SEED/<variant>/{patch.diff,demo.rs,notes.md}   (or /verif/seeded/<PROP>-<variant>/)
  steps:   1. in the scratch worktree /tmp/seed/<PROP>: patch applies; the repository's own suite
              passes with it; the demonstration fails with it and passes without it
           2. apply the patch to /repo, run ./check <PROP> <tier> (and with --all every property),
              undo it straight afterwards (git checkout -- .)
           3. store /verif/seeded/<PROP>-<variant>/{patch.diff,demo.rs,notes.md,meta.json}
Not part of any registered command.
"""
import json, os, re, shutil, subprocess, sys, time, fcntl

ENV = dict(os.environ, CARGO_NET_OFFLINE="true")

def run(cmd, cwd, timeout=3600):
    p = subprocess.run(cmd, cwd=cwd, shell=True, env=ENV, stdout=subprocess.PIPE, stderr=subprocess.STDOUT, text=True, timeout=timeout)
    return p.returncode, p.stdout

def main():
    prop, variant = sys.argv[1], sys.argv[2]
    tier = "quick"
    if "--tier" in sys.argv:
        tier = sys.argv[sys.argv.index("--tier") + 1]
    run_all = "--all" in sys.argv
    confirm_only = "--confirm-only" in sys.argv
    detect_only = "--detect-only" in sys.argv
    base = "/tmp/seed"
    tag = ""
    if "--base" in sys.argv:
        base = sys.argv[sys.argv.index("--base") + 1]
    if "--tag" in sys.argv:
        tag = sys.argv[sys.argv.index("--tag") + 1]
    wt = f"{base}/{prop}"
    src = f"{wt}/SEED/{variant}"
    dest = f"/verif/seeded/{prop}-{tag}{variant}"
    if not os.path.exists(src + "/patch.diff"):
        src = dest
    patch = os.path.abspath(src + "/patch.diff")
    demo = src + "/demo.rs"
    meta = {"property": prop, "variant": variant, "ran": []}
    confirmed = None
    if os.path.exists(f"{dest}/meta.json"):
        confirmed = json.load(open(f"{dest}/meta.json")).get("confirmed_in_scratch_worktree")
    if os.path.isdir(wt) and not detect_only:
        run("git checkout -- . && git clean -fdq tests", wt)
        rc, out = run(f"git apply --check {patch}", wt)
        if rc != 0:
            print("PATCH DOES NOT APPLY in scratch worktree:", out)
            sys.exit(3)
        demotxt = open(demo).read()
        feats = []
        if 'feature = "serde"' in demotxt:
            feats.append("serde")
        if 'feature = "rayon"' in demotxt:
            feats.append("rayon")
        cargo = "cargo"
        if 'feature = "nightly"' in demotxt or "histogram_const" in demotxt:
            feats.append("nightly")
            cargo = "cargo +nightly"
        featarg = ("--features " + ",".join(feats)) if feats else ""
        tname = f"seed_demo_{variant}"
        demotxt_is_b = variant
        run(f"git apply {patch}", wt)
        rc_suite, out_suite = run("cargo test --offline 2>&1 | grep -E '^test result|FAILED|^error' | head -20", wt)
        suite_ok = "FAILED" not in out_suite and "error" not in out_suite and out_suite.count("test result: ok") >= 3
        meta["ran"].append({"cmd": "cargo test --offline (patched scratch worktree)", "result": out_suite.strip().splitlines()})
        shutil.copy(demo, f"{wt}/tests/{tname}.rs")
        rc_with, out_with = run(f"{cargo} test --offline {featarg} --test {tname} 2>&1 | tail -15", wt)
        demo_fails_with = "test result: FAILED" in out_with
        run("git checkout -- .", wt)
        rc_without, out_without = run(f"{cargo} test --offline {featarg} --test {tname} 2>&1 | tail -8", wt)
        demo_passes_without = "test result: ok" in out_without and "FAILED" not in out_without
        os.remove(f"{wt}/tests/{tname}.rs")
        meta["ran"].append({"cmd": f"cargo test --offline {featarg} --test {tname} (with patch)", "failed_as_expected": demo_fails_with})
        meta["ran"].append({"cmd": f"cargo test --offline {featarg} --test {tname} (without patch)", "passed_as_expected": demo_passes_without})
        confirmed = suite_ok and demo_fails_with and demo_passes_without
        meta["confirmed_in_scratch_worktree"] = confirmed
        print(f"[{prop}-{variant}] suite passes with patch: {suite_ok}; demo fails with patch: {demo_fails_with}; demo passes without: {demo_passes_without}")
        if not confirmed:
            print(out_suite[-800:])
            print("\n".join(l for l in out_with.splitlines() if "test result" in l or "error" in l)[-600:])
            print("\n".join(l for l in out_without.splitlines() if "test result" in l or "error" in l)[-600:])
    if confirm_only:
        if confirmed:
            os.makedirs(dest, exist_ok=True)
            for f in ("patch.diff", "demo.rs", "notes.md"):
                if os.path.exists(f"{src}/{f}") and os.path.abspath(src) != os.path.abspath(dest):
                    shutil.copy(f"{src}/{f}", f"{dest}/{f}")
            old = json.load(open(f"{dest}/meta.json")) if os.path.exists(f"{dest}/meta.json") else {}
            old.update(meta)
            json.dump(old, open(f"{dest}/meta.json", "w"), indent=1)
        return
    # run the checks against /repo with the patch applied
    lock = open("/tmp/seedtest.lock", "w")
    fcntl.flock(lock, fcntl.LOCK_EX)
    results = {}
    try:
        rc, out = run("git status --porcelain", "/repo")
        if out.strip():
            print("REPO NOT CLEAN, refusing:", out)
            sys.exit(4)
        rc, out = run(f"git apply {patch}", "/repo")
        if rc != 0:
            print("PATCH DOES NOT APPLY to /repo:", out)
            sys.exit(3)
        props = [prop] + ([f"C{i:02d}" for i in range(1, 21) if f"C{i:02d}" != prop] if run_all else [])
        for p in props:
            t0 = time.time()
            rc, out = run(f"./check {p} {tier} 2>/dev/null", "/verif")
            lines = [l for l in out.splitlines() if l.startswith("VIOLATION") or l.startswith("  signature") or l.startswith("KNOWN-FINDING") or l.startswith("ENGINE-ERROR")]
            results[p] = {"exit": rc, "wall_s": round(time.time() - t0, 1), "lines": lines[:12]}
            print(f"[{prop}-{variant}] ./check {p} {tier}: exit {rc} ({len([l for l in lines if l.startswith('VIOLATION')])} violation lines)")
            for l in lines[:6]:
                print("     ", l[:260])
    finally:
        run("git checkout -- .", "/repo")
        fcntl.flock(lock, fcntl.LOCK_UN)
    # restore the evidence of the unchanged tree for the touched properties
    for p in results:
        run(f"./check {p} quick >/dev/null 2>&1", "/verif")
    meta["checks_against_patched_repo"] = {"tier": tier, "results": results}
    meta["detected_by_own_check"] = results[prop]["exit"] == 1
    meta["detected_by"] = [p for p, r in results.items() if r["exit"] == 1]
    if confirmed is not False:
        os.makedirs(dest, exist_ok=True)
        for f in ("patch.diff", "demo.rs", "notes.md"):
            if os.path.exists(f"{src}/{f}") and os.path.abspath(src) != os.path.abspath(dest):
                shutil.copy(f"{src}/{f}", f"{dest}/{f}")
        notes = open(f"{dest}/notes.md").read() if os.path.exists(f"{dest}/notes.md") else ""
        old = {}
        if os.path.exists(f"{dest}/meta.json"):
            old = json.load(open(f"{dest}/meta.json"))
        old.update(meta)
        old.setdefault("needs_to_manifest", "see notes.md")
        json.dump(old, open(f"{dest}/meta.json", "w"), indent=1)
        print(f"[{prop}-{variant}] stored in {dest}; detected by own check: {meta['detected_by_own_check']}")
    else:
        print(f"[{prop}-{variant}] NOT confirmed; not stored")

if __name__ == "__main__":
    main()
