#!/bin/bash
# Runs the plain regression tests against a scratch copy of /repo (outside /repo and /verif),
# then removes the copy.  usage: run.sh [git-rev]   (default: /repo's working tree)
set -e
S=/var/tmp/avgmc-regress
rm -rf $S; mkdir -p $S
if [ -n "${1:-}" ]; then git -C /repo archive "$1" | tar -x -C $S; else rsync -a --exclude target --exclude .git /repo/ $S/; fi
cp /verif/regressions/fixed_defects.rs $S/tests/verif_fixed_defects.rs
( cd $S && CARGO_NET_OFFLINE=true cargo test --offline --test verif_fixed_defects -- --include-ignored 2>&1 | grep -E "^test |^test result" )
rm -rf $S
