// Plain unit tests (no explorer, no engine) replaying the counterexamples the checks reported on
// the unchanged tree; each failed before the corresponding `fix:` commit and passes after it.
// Run with /verif/regressions/run.sh (copies this file into a scratch copy of /repo as an
// integration test).
use average::{define_histogram, Estimate, Histogram10, Moments4, Quantile, WeightedMean, WeightedMeanWithError};

define_histogram!(h1, 1);

// C05 (f8949e7): p = 0, stream 1,1,1,1,1,0 — the minimum marker must stay at position 1.
#[test]
fn c05_new_minimum_keeps_minimum_marker_at_position_one() {
    let mut q = Quantile::new(0.0);
    for x in [1., 1., 1., 1., 1., 0.] {
        q.add(x);
    }
    let dbg = format!("{:?}", q);
    assert!(dbg.contains("n: [1, 2, 3, 4, 6]"), "marker positions: {dbg}");
    assert_eq!(q.quantile(), 0.888888888888889);
}

// C07 (f0dad00): fewer than five observations — the result must not depend on arrival order.
#[test]
fn c07_small_sample_quantile_is_order_independent() {
    let mut q = Quantile::new(0.0);
    q.add(0.);
    q.add(-1.);
    assert_eq!(q.quantile(), -1.);
}

// C06 (1a4359f): a NaN sample is out of range, not a panic.
#[test]
fn c06_nan_sample_is_rejected_without_panic() {
    let mut h = h1::Histogram::from_ranges([f64::NEG_INFINITY, f64::NEG_INFINITY]).unwrap();
    assert!(h.find(f64::NAN).is_err());
    assert!(h.add(f64::NAN).is_err());
    let mut h10 = Histogram10::with_const_width(0., 10.);
    assert!(h10.add(f64::NAN).is_err());
    assert_eq!(average::Histogram::bins(&h10).iter().sum::<u64>(), 0);
}

// C10 (fca10d5): adjusted Fisher-Pearson coefficient, negative skew included.
#[test]
fn c10_sample_skewness_has_the_sign_and_size_of_the_definition() {
    let neg: Moments4 = [3., 3., -2.].iter().collect();
    assert!((neg.sample_skewness() + 1.7320508075688772).abs() < 1e-12, "{}", neg.sample_skewness());
    let pos: Moments4 = [-2., -2., 3.].iter().collect();
    assert!((pos.sample_skewness() - 1.7320508075688772).abs() < 1e-12, "{}", pos.sample_skewness());
}

// C10 (2bf72b4): G2 = (n-1)/((n-2)(n-3)) ((n+1)(m4/m2^2 - 3) + 6).
#[test]
fn c10_sample_excess_kurtosis_matches_the_definition() {
    let xs = [-2., -2., -2., 3.];
    let m: Moments4 = xs.iter().collect();
    let n = 4.0;
    let g2 = m.central_moment(4) / (m.central_moment(2) * m.central_moment(2)) - 3.;
    let want = (n - 1.) / ((n - 2.) * (n - 3.)) * ((n + 1.) * g2 + 6.);
    assert!((m.sample_excess_kurtosis() - want).abs() < 1e-12, "{} vs {}", m.sample_excess_kurtosis(), want);
    assert!((want - 4.0).abs() < 1e-12);
}

// C08 (ee0269e): a zero-weight first observation must not poison the weighted mean.
#[test]
fn c08_zero_weight_first_observation() {
    let mut a = WeightedMean::new();
    a.add(-1., 0.);
    a.add(-1., 1e-6);
    assert_eq!(a.mean(), -1.);
    let mut b = WeightedMeanWithError::new();
    b.add(5., 0.);
    b.add(2., 3.);
    assert_eq!(b.weighted_mean(), 2.);
    assert_eq!(b.len(), 2);
    assert_eq!(b.unweighted_mean(), 3.5);
}

// C15, recorded finding (not repaired): finite observations whose span overflows f64.
// Expected to FAIL on the current tree; kept `#[ignore]`d as the plain-call form of the finding.
#[test]
#[ignore]
fn c15_known_finding_span_overflows_f64() {
    let mut q = Quantile::new(0.25);
    for x in [-1.7e308, -1.7e308, 1.7e308, 1.7e308, 1.7e308, -1.7e308] {
        q.add(x);
    }
    let v = q.quantile();
    assert!((-1.7e308..=1.7e308).contains(&v), "quantile() = {v}");
}

// C07 / C15 (d2745a3): the average of two equal subnormal order statistics is that value.
#[test]
fn c07_c15_small_sample_average_stays_between_the_order_statistics() {
    for x in [f64::from_bits(1), f64::from_bits(3), -f64::from_bits(5), f64::from_bits(f64::MIN_POSITIVE.to_bits() + 1)] {
        let mut q = Quantile::new(0.5);
        q.add(x);
        q.add(x);
        assert_eq!(q.quantile().to_bits(), x.to_bits(), "median of [{x:e}, {x:e}]");
    }
    let mut q = Quantile::new(0.25);
    for _ in 0..4 {
        q.add(5e-324);
    }
    assert_eq!(q.quantile(), 5e-324);
}

// C05 (known finding, not repaired): observations within a factor 8 of f64::MAX.
#[test]
#[ignore = "known finding: marker arithmetic overflows near f64::MAX"]
fn c05_known_finding_heights_near_f64_max() {
    let s = (2.0f64).powi(1021);
    let mut big = Quantile::new(0.25);
    let mut small = Quantile::new(0.25);
    for x in [0., 0., 2., 3., 3., 2., 2., 2., 0.] {
        big.add(x * s);
        small.add(x);
    }
    assert_eq!(big.quantile(), small.quantile() * s);
}

// C17 (df519eb): the merge cross term must not overflow while the variance itself is representable.
#[test]
fn c17_merge_of_long_runs_of_large_values_stays_finite() {
    use average::{Covariance, Merge, Variance};
    let a: Variance = core::iter::repeat(-1e150).take(10_000).collect();
    let b: Variance = core::iter::repeat(1e150).take(10_000).collect();
    let mut m = a.clone();
    m.merge(&b);
    assert!((m.population_variance() / 1e300 - 1.).abs() < 1e-12, "{:e}", m.population_variance());
    assert!(m.error().is_finite());
    let ca: Covariance = core::iter::repeat((-1e150, 5e149)).take(10_000).collect();
    let cb: Covariance = core::iter::repeat((1e150, -5e149)).take(10_000).collect();
    let mut c = ca.clone();
    c.merge(&cb);
    assert!(c.population_variance_x().is_finite() && c.population_variance_y().is_finite());
}

// C17 (known finding, not repaired): WeightedMean::merge with subnormal weight·value products.
#[test]
#[ignore = "known finding: weight_sum * average underflows in WeightedMean::merge"]
fn c17_known_finding_weighted_merge_underflow() {
    use average::Merge;
    let mut a = WeightedMean::new();
    a.add(2.5e-308, 1e-6);
    let b = a.clone();
    a.merge(&b);
    assert_eq!(a.mean(), 2.5e-308);
}
