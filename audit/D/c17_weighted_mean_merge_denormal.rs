// Property C17 (inside the letter of the quantifier; whether an underflow effect was
// meant to be covered by a relative allowance is ARGUABLE - see "Domain").
//
// Clause violated: "mean() of every estimator and the weighted mean for non-negative
// weights lie between the smallest and largest contributing observation up to
// C*n*2^-53*max|x|" with the quantifier "all sequences of finite values with |x| <= 1e150
// including ... denormals and mixed magnitudes; all chunkings and merge trees".
//
// Mechanism: src/weighted_mean.rs:157-160, WeightedMean::merge computes
//     (self.weight_sum * self.weighted_avg + other.weight_sum * other.weighted_avg) / total
// The products weight_sum * weighted_avg underflow (to 0 or to a subnormal with few
// significant bits) when the samples are tiny and the chunk weight is below 1, so the
// merged weighted mean leaves the range of the observations:
//   * subnormal observations: the mean collapses to exactly 0 although every observation
//     is positive (tests 1 and 2);
//   * NORMAL observations just above f64::MIN_POSITIVE (2.5e-308) with weights 1e-6: the
//     mean of two equal observations x comes out 6.3e-11 relative above x, i.e.
//     2.8e5 * n * 2^-53 * max|x| (test 3).
// The single-pass estimator (WeightedMean::add, line 53, `prev + (w/W)*(x - prev)`) keeps
// the mean inside the range in all three cases, so merge and add disagree (WeightedMean
// and WeightedMeanWithError alike; Mean::merge and Covariance::merge multiply by counts
// >= 1 and are not affected).
//
// Domain: C17 has no lower bound on |x| (denormals are listed explicitly) and no
// restriction on the non-negative weights; the weights used (0.25 and 1e-6) are inside
// the C08 weight range [1e-6, 1e6]. The inputs are not in the C08 domain (|x| >= 1e-30).
use average::{Merge, WeightedMean, WeightedMeanWithError};

#[test]
fn merged_weighted_mean_leaves_the_data_range() {
    let x = 5e-324; // smallest positive subnormal
    let mut a = WeightedMean::new();
    a.add(x, 0.25);
    let mut b = WeightedMean::new();
    b.add(x, 0.25);

    // single pass: stays at x
    let mut single = WeightedMean::new();
    single.add(x, 0.25);
    single.add(x, 0.25);
    assert_eq!(single.mean(), x);

    a.merge(&b);
    let m = a.mean();
    assert!(m >= x && m <= x, "merged weighted mean {m:e} outside [{x:e}, {x:e}]");
}

#[test]
fn merged_weighted_mean_with_error_leaves_the_data_range() {
    // observations 1e-320 and 2e-320 (subnormal, ~2000 and ~4000 units), weights 1e-6
    // (the smallest weight of the C08 range). Exact weighted mean 1.5e-320; every
    // observation is >= 1e-320; the merged estimator reports 0.
    let mut a = WeightedMeanWithError::new();
    a.add(1e-320, 1e-6);
    a.add(2e-320, 1e-6);
    let mut b = WeightedMeanWithError::new();
    b.add(2e-320, 1e-6);
    b.add(1e-320, 1e-6);
    let mut single = a.clone();
    single.add(2e-320, 1e-6);
    single.add(1e-320, 1e-6);
    let s = single.weighted_mean();
    assert!(s >= 1e-320 && s <= 2e-320, "single-pass weighted mean {s:e} out of range");
    a.merge(&b);
    let m = a.weighted_mean();
    assert!(
        m >= 1e-320 && m <= 2e-320,
        "merged weighted mean {m:e} outside [1e-320, 2e-320] (single pass: {s:e})"
    );
}

// The same defect with NORMAL (not subnormal) observations: two observations x = 2.5e-308
// (min normal is 2.2e-308) with weight 1e-6 each, one per chunk. The only contributing
// value is x, so the weighted mean must be x up to C*n*2^-53*|x|. The product
// weight_sum * weighted_avg = 2.5e-314 is subnormal (33 significant bits), and the merged
// mean comes out as 2.5000000001567347e-308: 6.3e-11 relative above the largest
// observation, i.e. 2.8e5 * n * 2^-53 * max|x|. The single-pass estimator returns x exactly.
#[test]
fn merged_weighted_mean_of_normal_values_leaves_the_data_range() {
    let x: f64 = 2.5e-308;
    assert!(x.is_normal());
    let mut a = WeightedMean::new();
    a.add(x, 1e-6);
    let mut b = WeightedMean::new();
    b.add(x, 1e-6);
    let mut single = WeightedMean::new();
    single.add(x, 1e-6);
    single.add(x, 1e-6);
    assert_eq!(single.mean(), x);
    a.merge(&b);
    let m = a.mean();
    // generous C = 1000, n = 2
    let tol = 1000.0 * 2.0 * 2f64.powi(-53) * x;
    assert!(
        m >= x - tol && m <= x + tol,
        "merged weighted mean {m:e} vs the only observed value {x:e}: off by {:e} relative",
        (m - x) / x
    );
}
