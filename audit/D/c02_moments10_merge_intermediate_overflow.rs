// Property C02 (domain membership ARGUABLE - see "Domain" below).
//
// Clause violated: "For Mean, Variance, Skewness, Kurtosis and any define_moments!
// estimator: ... combine the summaries with merge in any bracketing ... The combined
// estimator reports ... every statistic within the same forward-error envelope of the
// exact statistics of the whole sequence as the single-pass estimator, so parallel and
// single-pass results are interchangeable."
//
// Input (n = 10^6 values, all |x| = 1e30, i.e. inside the C01 value domain, kappa = 2.7):
//   chunk A: 100 000 values, +1e30 at every tenth position, -1e30 elsewhere
//   chunk B: 900 000 values +1e30
// Exact tenth central moment of the whole sequence (python3 fractions.Fraction):
//   m10 = 3.5888589478256043e301   (n * m10 = 3.59e307, representable)
// Single pass (A then B, add only):  central_moment(10) = 3.58885894785849e301  (9e-12 rel.)
// A.merge(B) and B.merge(A):         central_moment(10) = NaN
//
// Mechanism: src/moments/mod.rs:241-250 (Merge for define_moments!): the order-p update
//     m[p-2] += binom(p,k) * delta^k * (prev_m[p-2-k] * (-n_b/n)^k + other.m[p-2-k] * (n_a/n)^k)
// is a binomial expansion of sum_i (y_i - d)^p whose individual terms alternate in sign and
// are up to ~10 times larger than the final sum when a group of chunk A's points lands on
// the global mean (here the 10 000 points at +1e30: y = 1.82e30, d = 1.64e30). For p = 10,
// k = 5 the term is 252 * delta^5 * M5(A) * 0.9^5 ~ 5e308 > f64::MAX, so +inf and -inf are
// accumulated into m[8] and the result is NaN, although every exact quantity involved in
// the statement (n*m10 = 3.6e307) is finite. The single-pass update (same file, lines
// 189-203) adds the same mass in 900 000 small steps and never leaves the finite range.
//
// Domain: C02 quantifies over "all sequences as in C01" (|x| in {0} U [1e-30, 1e30],
// n up to 10^6) and explicitly over "any define_moments! estimator"; this input is inside
// that quantifier. C04 (single pass) carries the additional restriction
// n*max|x|^N < 1e300 "(no overflow)", which this input does not satisfy (it is 1e306);
// if that restriction is meant to apply to C02 as well, the input is out of domain. With
// the C04 restriction in force the intermediate terms stay below ~4e302 and cannot overflow.
use average::Merge;

mod m {
    average::define_moments!(Moments10, 10);
}
use m::Moments10;

#[test]
fn merge_of_two_chunks_is_nan_where_single_pass_is_accurate() {
    let exact_m10 = 3.5888589478256043e301_f64;
    let mut a = Moments10::new();
    let mut single = Moments10::new();
    for i in 0..100_000 {
        let x = if i % 10 == 0 { 1e30 } else { -1e30 };
        a.add(x);
        single.add(x);
    }
    let mut b = Moments10::new();
    for _ in 0..900_000 {
        b.add(1e30);
        single.add(1e30);
    }
    // the single-pass estimator is accurate to 1e-11 relative
    let s = single.central_moment(10);
    assert!(((s - exact_m10) / exact_m10).abs() < 1e-9, "single pass: {s:e}");

    let mut ab = a.clone();
    ab.merge(&b);
    assert_eq!(ab.len(), 1_000_000);
    let m = ab.central_moment(10);
    assert!(
        ((m - exact_m10) / exact_m10).abs() < 1e-6,
        "A.merge(B): central_moment(10) = {m:e}, exact {exact_m10:e}, single pass {s:e}"
    );
}

#[test]
fn merge_in_the_other_direction() {
    let exact_m10 = 3.5888589478256043e301_f64;
    let mut a = Moments10::new();
    for i in 0..100_000 {
        a.add(if i % 10 == 0 { 1e30 } else { -1e30 });
    }
    let mut b = Moments10::new();
    for _ in 0..900_000 {
        b.add(1e30);
    }
    b.merge(&a);
    let m = b.central_moment(10);
    assert!(
        ((m - exact_m10) / exact_m10).abs() < 1e-6,
        "B.merge(A): central_moment(10) = {m:e}, exact {exact_m10:e}"
    );
}
