// Property C17 (domain membership ARGUABLE - see below).
//
// Clause violated: "for non-negative weights with positive sum effective_len lies in
// [1, len()] up to n*2^-50 relative."
//
// Mechanism: src/weighted_mean.rs:212 accumulates `weight * weight` and
// src/weighted_mean.rs:268 evaluates `weight_sum * weight_sum / self.weight_sum_sq`.
// Both squares are formed in f64 before the division, so they underflow / overflow
// although the quotient (sum w)^2 / sum w^2 is a perfectly ordinary number in [1, n]:
//   * weights below ~1.5e-154: w*w underflows (to 0 or to a subnormal with few bits),
//     giving 0/0 = NaN or a quotient that is off by ~1e-3 relative;
//   * many large weights: (sum w)^2 overflows to +inf although sum w^2 is finite.
// effective_len is scale invariant in exact arithmetic (multiplying every weight by a
// constant does not change it), which is why the result depends on nothing but the
// ratios of the weights - the code loses that invariance.
//
// Domain: C17 quantifies over "all sequences of finite values with |x| <= 1e150 ...
// denormals and mixed magnitudes" and, for this clause, over "non-negative weights with
// positive sum" without any bound on the weights. All weights used below are finite,
// non-negative, have a positive sum and satisfy |w| <= 1e150. If the weights are meant
// to be restricted to the C08 range [1e-6, 1e6] these inputs are outside the domain.
use average::WeightedMeanWithError;

fn check(pairs: &[(f64, f64)]) {
    let e: WeightedMeanWithError = pairs.iter().collect();
    let n = pairs.len() as f64;
    let eff = e.effective_len();
    let tol = n * 2f64.powi(-50);
    assert!(
        eff >= 1.0 * (1.0 - tol) && eff <= n * (1.0 + tol),
        "effective_len = {eff:e} not in [1, {n}] (weights {:e} ..)",
        pairs[0].1
    );
}

// One observation of weight 1e-200: exact effective_len = 1. Observed: NaN (0/0).
#[test]
fn single_tiny_weight() {
    check(&[(1.0, 1e-200)]);
}

// Three equal weights 1e-161: exact effective_len = 3 = len(). w*w = 1e-322 is subnormal
// (about 4 significant bits), observed 3.033333333333333, i.e. 1.1e-2 relative above len()
// (allowed: 3 * 2^-50 = 2.7e-15 relative).
#[test]
fn equal_weights_with_subnormal_squares_exceed_len() {
    check(&[(1.0, 1e-161), (2.0, 1e-161), (3.0, 1e-161)]);
}

// Three equal weights 3e-162: exact effective_len = 3; observed 2.6666666666666665.
// (Inside [1, len()], so `check` does not flag it; it is asserted against the exact value
// to show that the statistic is simply wrong, cf. C08 "within 8*n*2^-53 relative".)
#[test]
fn equal_weights_with_subnormal_squares_wrong_value() {
    let e: WeightedMeanWithError = [(1.0, 3e-162), (2.0, 3e-162), (3.0, 3e-162)].iter().collect();
    let eff = e.effective_len();
    assert!((eff - 3.0).abs() <= 3.0 * 8.0 * 3.0 * 2f64.powi(-53), "effective_len = {eff}, exact 3");
}

// 20000 equal weights 1e150 (each within |w| <= 1e150): exact effective_len = 20000.
// sum w = 2e154, (sum w)^2 = +inf, sum w^2 = 2e304 finite. Observed: +inf.
#[test]
fn many_large_weights() {
    let pairs: Vec<(f64, f64)> = (0..20000).map(|i| (i as f64, 1e150)).collect();
    check(&pairs);
}
