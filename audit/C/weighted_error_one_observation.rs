//! Property C16 -- "Empty, one-observation and constant samples follow the documented contract"
//!
//! Clauses violated:
//!   "With one observation x, and with any add-only stream of identical
//!    observations x, mean() is exactly x and population_variance(),
//!    variance_of_mean(), error(), skewness(), kurtosis() and every
//!    central_moment(p >= 1) are exactly 0 (not NaN)."
//!   and "Every statistic accessor that is undefined for the current sample size
//!    returns its *documented* sentinel".
//! Quantifier: "every public estimator type x every statistic accessor x sample
//! sizes 0,1,2,3,4 ..." -- WeightedMeanWithError is a public estimator type and
//! error() / variance_of_weighted_mean() are its accessors.
//!
//! Input: WeightedMeanWithError, one observation (x, w) = (3.0, 1.0)
//! (any x in the C01 domain, any weight w > 0).
//!
//! Observed: error() = NaN, variance_of_weighted_mean() = NaN.
//! Expected by the statement: error() exactly 0 (as Variance::error(),
//! Skewness::error_mean(), Kurtosis::error_mean() return for the same sample:
//! src/moments/variance.rs:111-113 special-cases n == 1 => 0.).  With a second
//! identical observation error() *is* 0, so the constant stream 3.0, 3.0, ...
//! reports NaN, 0, 0, 0, ...
//!
//! Mechanism: src/weighted_mean.rs:298-310.  variance_of_weighted_mean() guards
//! only `weight_sum == 0.` and then returns
//!     self.sample_variance() * inv_effective_len
//! and sample_variance() is NaN for n < 2 (src/moments/variance.rs:82-84); the
//! n == 1 case that Variance::variance_of_mean() handles is missing.  The doc
//! comment (weighted_mean.rs:291-297, 312-317) promises NaN only "if the sample
//! is empty, or if the sum of weights is zero", so NaN here is not a documented
//! sentinel either.
//!
//! Domain membership: the sample is inside the C01 domain (one finite
//! observation, |x| in [1e-30, 1e30]).  Arguable point: the statement lists
//! `error()` without naming the types; read literally over "every public
//! estimator type" it includes WeightedMeanWithError::error().  If the clause
//! is read as covering only the unweighted estimators, what remains is the
//! undocumented-NaN part (second test).

use average::{Variance, WeightedMeanWithError, Estimate};

#[test]
fn error_of_one_observation_is_zero_not_nan() {
    for &(x, w) in &[(3.0, 1.0), (1e30, 0.25), (-1e-30, 1e-30), (0.0, 7.0)] {
        let mut a = WeightedMeanWithError::new();
        a.add(x, w);
        // the unweighted estimator, same sample:
        let mut v = Variance::new();
        v.add(x);
        assert_eq!(v.error(), 0.0);
        assert_eq!(a.weighted_mean(), x);
        assert_eq!(a.population_variance(), 0.0);
        assert_eq!(a.error(), 0.0, "WeightedMeanWithError::error() after one observation ({x}, {w})");
    }
}

#[test]
fn constant_stream_reports_nan_then_zero() {
    let mut a = WeightedMeanWithError::new();
    let mut errors = Vec::new();
    for _ in 0..4 {
        a.add(3.0, 1.0);
        errors.push(a.variance_of_weighted_mean());
    }
    // documented NaN cases: empty sample, zero weight sum -- neither applies.
    assert!(a.sum_weights() > 0.0 && !a.is_empty());
    assert!(errors.iter().all(|e| *e == 0.0), "variance_of_weighted_mean along 3,3,3,3: {errors:?}");
}
