//! Property C13 -- "Histogram merge, +=, *=, reset and views are exact bin-wise operations"
//!
//! Clause violated:
//!   "... from which widths (upper-lower), centers ((lower+upper)/2),
//!    normalized_bins (count/width), variance(i) and variances()
//!    (count*(1-count/total)) are computed"
//!
//! History (LEN = 1, edges [0, 1]): 49 times add(0.5).  All 49 samples are in the
//! only bin, so count == total and count*(1-count/total) = 49*(1-49/49) = 0
//! exactly (also when evaluated in f64: 49./49. == 1.).  A bin that holds every
//! sample has no multinomial variance.
//!
//! Observed: variance(0) == variances().next() == 5.440092820663267e-15 (> 0).
//!
//! Mechanism: src/traits.rs:46-48 and :65 / :100 (twin: src/histogram_const.rs:167,
//! :202, :298-300).  The code does not divide by the total, it multiplies by a
//! separately rounded reciprocal:
//!     multinomial_variance(count as f64, 1. / (sum as f64))  =  n * (1. - n * n_tot_inv)
//! and fl(49 * fl(1/49)) = 0.9999999999999999 != 1.  The same happens for 98,
//! 103, 107, 161, ... (about 13.5 % of all totals below 5*10^6), and for
//! count != total the result differs from count*(1-count/total) in the last
//! bits (second test: 179 of the 1274 (count,total) pairs with total < 50).
//! The error is absolute ~ count * 1.1e-16, so it is relatively large exactly
//! when the true variance is small (count close to total).
//!
//! Domain membership: inside (plain add history, LEN = 1 and 2).  Whether the
//! property intends the parenthesised formula bit-for-bit is the only arguable
//! point; the first test does not depend on it (exact value 0 vs. a positive
//! number, for every sensible evaluation order of count*(1-count/total)).

use average::{define_histogram, Histogram};

define_histogram!(hist1, 1);
define_histogram!(hist2, 2);

#[test]
fn bin_holding_every_sample_has_zero_variance() {
    let mut h = hist1::Histogram::with_const_width(0.0, 1.0);
    for _ in 0..49 {
        h.add(0.5).unwrap();
    }
    assert_eq!(h.bins(), &[49]);
    let count = 49.0_f64;
    let total = 49.0_f64;
    let expected = count * (1. - count / total);
    assert_eq!(expected, 0.0);
    assert_eq!(h.variances().next().unwrap().to_bits(), h.variance(0).to_bits());
    assert_eq!(h.variance(0), expected, "variance of the only bin, 49 of 49 samples");
}

#[test]
fn variance_is_count_times_one_minus_count_over_total() {
    let mut mismatches = 0;
    let mut pairs = 0;
    for total in 1u64..50 {
        for count in 0..=total {
            let mut h = hist2::Histogram::with_const_width(0.0, 2.0);
            for _ in 0..count {
                h.add(0.5).unwrap();
            }
            for _ in count..total {
                h.add(1.5).unwrap();
            }
            let (c, t) = (count as f64, total as f64);
            let expected = c * (1. - c / t);
            pairs += 1;
            if h.variance(0) != expected {
                mismatches += 1;
            }
        }
    }
    assert_eq!(mismatches, 0, "{mismatches} of {pairs} (count,total) pairs differ from count*(1-count/total)");
}
