//! Properties C19 and C16 (API level, same class as the known "`Max` has no
//! `Extend` impl").
//!
//! C19 clause: "With the rayon feature, collecting a parallel iterator of f64 or
//!   &f64 into Mean, Variance, Skewness, Kurtosis, Min, Max or a define_moments!
//!   type yields exactly the sequential len() ..."
//! C16 quantifier: "every public estimator type x every statistic accessor"
//!   (standardized_moment is named in the statement, sample_skewness is the
//!   accessor repaired in fca10d5).
//!
//! Input: a crate *other than `average` itself* that enables average's `rayon`
//! feature (and gets the default `libm` feature) and writes
//!     define_moments!(Moments6, 6);
//!
//! Observed:
//!   * `Moments6` implements neither FromParallelIterator<f64> nor
//!     FromParallelIterator<&f64>: `data.par_iter().collect::<Moments6>()` does
//!     not compile (E0277), while average::Moments4 / Kurtosis / ... do.
//!   * `Moments6` has no `standardized_moment` and no `sample_skewness` method
//!     (E0599), while average::Moments4 has both.
//!   rustc also says why: "warning: unexpected `cfg` condition value: `rayon` ...
//!   using a cfg inside a macro will use the cfgs from the destination crate and
//!   not the ones from the defining crate".
//!
//! Mechanism: the `#[cfg(feature = ...)]` attributes are *inside the macro
//! bodies* and are therefore evaluated against the features of the crate that
//! invokes the macro, not against average's features:
//!   src/macros.rs:190 and :219   `#[cfg(feature = "rayon")] impl ::rayon::iter::FromParallelIterator<..> for $name`
//!        (reached from define_moments! through src/moments/mod.rs:262)
//!   src/moments/mod.rs:104 and :135   `#[cfg(any(feature = "std", feature = "libm"))]`
//!        on `standardized_moment` and `sample_skewness`
//! (Contrast src/histogram.rs:230/255 and src/moments/mod.rs:267/294, where the
//! cfg sits on the macro *definition* and is evaluated in `average` -- correct.)
//! Inside average's own tests/ directory the two feature sets coincide, which is
//! why the bundled tests (and any harness living in that package) cannot see it.
//!
//! Domain membership: the data are irrelevant (any vector).  Arguable point: it
//! is a missing-impl/compile-time defect, observable only from a downstream
//! crate; the tests below turn it into run-time failures by probing for the
//! impls/methods with inherent-over-trait method resolution.

use average::define_moments;
use core::marker::PhantomData;
use rayon::iter::FromParallelIterator;

define_moments!(Moments6, 6);

struct Probe<T>(PhantomData<T>);
trait NoImpl {
    fn from_par_f64(&self) -> bool { false }
    fn from_par_ref_f64(&self) -> bool { false }
}
impl<T> NoImpl for Probe<T> {}
impl<T: FromParallelIterator<f64>> Probe<T> {
    fn from_par_f64(&self) -> bool { true }
}
impl<T: for<'a> FromParallelIterator<&'a f64>> Probe<T> {
    fn from_par_ref_f64(&self) -> bool { true }
}

// Fallbacks that are only picked when the inherent methods do not exist.
trait MissingAccessors {
    fn standardized_moment(&self, _p: usize) -> Option<f64> { None }
    fn sample_skewness(&self) -> Option<f64> { None }
}
impl MissingAccessors for Moments6 {}
trait Present { fn present(self) -> bool; }
impl Present for f64 { fn present(self) -> bool { true } }
impl Present for Option<f64> { fn present(self) -> bool { self.is_some() } }

#[test]
fn types_defined_inside_average_collect_in_parallel() {
    assert!(Probe::<average::Moments4>(PhantomData).from_par_f64());
    assert!(Probe::<average::Moments4>(PhantomData).from_par_ref_f64());
    assert!(Probe::<average::Kurtosis>(PhantomData).from_par_f64());
    assert!(Probe::<average::Max>(PhantomData).from_par_ref_f64());
}

#[test]
fn c19_define_moments_type_collects_in_parallel() {
    assert!(Probe::<Moments6>(PhantomData).from_par_f64(), "Moments6: FromParallelIterator<f64> is not implemented");
    assert!(Probe::<Moments6>(PhantomData).from_par_ref_f64(), "Moments6: FromParallelIterator<&f64> is not implemented");
}

#[test]
fn c16_define_moments_type_has_all_accessors() {
    let m: Moments6 = [1.0, 2.0, 4.0].iter().collect();
    let reference: average::Moments4 = [1.0, 2.0, 4.0].iter().collect();
    let _ = (reference.standardized_moment(3), reference.sample_skewness()); // exist on Moments4
    assert!(m.standardized_moment(3).present(), "Moments6 has no standardized_moment()");
    assert!(m.sample_skewness().present(), "Moments6 has no sample_skewness()");
}
