// see tests/downstream.rs
