//! Property C16 -- "Empty, one-observation and constant samples follow the documented contract"
//!
//! Clause violated:
//!   "With one observation x, and with any add-only stream of identical
//!    observations x, ... every central_moment(p >= 1) [is] exactly 0 (not NaN)."
//!
//! Input: define_moments!(Moments11, 11); one observation x = 1e30 (the upper end
//! of the C01 value domain), and the constant stream 1e30, 1e30, ... (length 10^4).
//!
//! Observed: central_moment(11) = NaN after the first observation and for ever
//! after.  (Orders <= 10 are fine at 1e30 because 1e300 is finite; for order 12
//! x = 1e26 suffices, for order 16 x = 2e19, for order 20 x = 3e15.)
//!
//! Mechanism: src/moments/mod.rs:189-193.  For n = 1 the coefficient
//! (term1 + term2) is exactly 0, but it is multiplied by
//!     coeff_delta *= delta;     // delta = x - 0 = x, so coeff_delta = x^p
//! and 1e30^11 overflows to +inf:  m[p-2] += 0. * inf  =  NaN.  The first
//! observation is measured from the initial avg = 0 instead of being special-
//! cased, so the p-th power of the raw observation is formed although the p-th
//! central moment of a single observation is 0.  (Same mechanism, far outside
//! the C01 domain, for Moments4 at |x| > 1.2e77, Variance/Skewness/Kurtosis/
//! Covariance at |x| > 1.3e154 and a debug_assert panic in Kurtosis::kurtosis()
//! for 5.5e153 < |x| < 1.3e154 -- see "rejected candidates".)
//!
//! DOMAIN MEMBERSHIP IS ARGUABLE: x = 1e30 is inside the C01 domain and the
//! property says "define_moments! types" without bounding the order, but the
//! macro documentation warns "In practise, there is an upper limit due to
//! integer overflow and possibly numerical issues", and the orders the other
//! properties mention stop at 10.  With order <= 10 the clause holds on the
//! whole C01 domain (checked: 0, +-1e-30, 1, +-1e30, 1e12+1, streams to 10^4).

use average::define_moments;

define_moments!(Moments11, 11);

#[test]
fn one_observation_at_the_top_of_the_domain() {
    let mut m = Moments11::new();
    m.add(1e30);
    assert_eq!(m.mean(), 1e30);
    for p in 1..=11 {
        assert_eq!(m.central_moment(p), 0.0, "central_moment({p}) of the single observation 1e30");
    }
}

#[test]
fn constant_stream_at_the_top_of_the_domain() {
    let mut m = Moments11::new();
    for _ in 0..10_000 {
        m.add(1e30);
    }
    assert_eq!(m.mean(), 1e30);
    for p in 1..=11 {
        assert_eq!(m.central_moment(p), 0.0, "central_moment({p}) of 10^4 times 1e30");
    }
}
