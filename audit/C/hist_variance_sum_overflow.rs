//! Property C13 -- "Histogram merge, +=, *=, reset and views are exact bin-wise operations"
//!
//! Clause violated:
//!   "*= k multiplies every count by k, ... iteration yields exactly LEN items
//!    ((lower, upper), count) in edge order from which ... variance(i) and
//!    variances() (count*(1-count/total)) are computed"
//! Quantifier: "histograms ... reachable by arbitrary add/merge/+=/*=/reset/clone
//! histories; LEN in {1..4, 10, 100}"  -- `*=` histories are explicitly inside.
//!
//! History (LEN = 2, edges [0, 1, 2]):  add(0.5); add(1.5); h *= 2^63.
//! Every count (2^63, 2^63) is representable in u64, `*=` itself does not
//! overflow, and the value the statement prescribes,
//!     count*(1-count/total) = 2^63 * (1 - 2^63/2^64) = 2^62,
//! is an exactly representable f64.
//!
//! Observed: `variance(0)` / `variances()` PANIC with "attempt to add with
//! overflow" in a debug/test build; in a release build the total wraps to 0,
//! `1. / 0.` is +inf and the "variance" returned is -inf.
//!
//! Mechanism: src/traits.rs:64 and :97 (and the const-generic twin
//! src/histogram_const.rs:166 and :199) compute the total as
//!     let sum: u64 = self.bins().iter().sum();
//! i.e. in u64, although the only use of the total is `1. / (sum as f64)`.
//! The sum of LEN representable counts need not be representable.  (The same
//! happens with three adds and `*= 2^62`, with merge/+= of two such histograms,
//! etc.; any history whose total reaches 2^64.)
//!
//! Domain membership: inside the stated quantifier (arbitrary `*=` histories).

use average::{define_histogram, Histogram};
use std::panic::{catch_unwind, AssertUnwindSafe};

define_histogram!(hist2, 2);

fn scaled() -> hist2::Histogram {
    let mut h = hist2::Histogram::with_const_width(0.0, 2.0);
    h.add(0.5).unwrap();
    h.add(1.5).unwrap();
    h *= 1u64 << 63; // no overflow here: 1 * 2^63 fits
    assert_eq!(h.bins(), &[1u64 << 63, 1u64 << 63]);
    h
}

#[test]
fn variance_of_representable_counts() {
    let h = scaled();
    let expected = 4611686018427387904.0; // 2^62 = c*(1-c/total), c = 2^63, total = 2^64
    let got = catch_unwind(AssertUnwindSafe(|| h.variance(0)));
    match got {
        Err(_) => panic!("variance(0) panicked (u64 overflow of the total) instead of returning {expected}"),
        Ok(v) => assert_eq!(v, expected, "variance(0) returned {v}"),
    }
}

#[test]
fn variances_of_representable_counts() {
    let h = scaled();
    let expected = 4611686018427387904.0;
    let got = catch_unwind(AssertUnwindSafe(|| h.variances().collect::<Vec<f64>>()));
    match got {
        Err(_) => panic!("variances() panicked (u64 overflow of the total)"),
        Ok(v) => assert_eq!(v, vec![expected, expected]),
    }
}
