//! Property C12 -- "Histogram construction accepts exactly the valid edge lists"
//!   (second test also C06: "... never panics ...")
//!
//! Clause violated:
//!   "with_const_width(start, end) for finite start < end yields LEN+1
//!    non-decreasing edges, the first exactly start and edge i within a few ulps
//!    (of the larger of |start| and |end|) of start + i*(end-start)/LEN, so the
//!    last lies within a few ulps of end."
//!
//! DOMAIN MEMBERSHIP IS ARGUABLE: the statement says "for finite start < end"
//! (all inputs below satisfy that), but the quantifier samples "all finite
//! start < end over 30 orders of magnitude"; the inputs below need
//! |end - start| > f64::MAX (tests 1-3) or a subnormal bin width (test 4), i.e.
//! they are outside a 30-orders-of-magnitude window.
//!
//! 1/2. with_const_width(-1e308, 1e308), LEN = 2 (any LEN; also (-f64::MAX, f64::MAX)):
//!      observed edges [NaN, inf, inf]; expected [-1e308, 0, 1e308] (all
//!      representable).  Then h.add(0.0) PANICS ("called `Option::unwrap()` on a
//!      `None` value", histogram.rs:100) instead of counting 0.0 in bin 1.
//!      Mechanism: src/histogram.rs:40-44 (twin histogram_const.rs:39-43)
//!          let step = (end - start) / (LEN as f64);   // end - start = +inf
//!          *r = start + step * (i as f64);            // inf * 0 = NaN; -1e308 + inf = inf
//!      `end - start` overflows although every edge start + i*(end-start)/LEN is
//!      representable (end/LEN - start/LEN would not overflow).
//! 3.   with_const_width(0.0, f64::MAX), LEN = 3: last edge is +inf, not within a
//!      few ulps of end = f64::MAX (step = fl(MAX/3) is rounded up and 3*step
//!      rounds to +inf), so range_max() is +inf instead of f64::MAX.
//! 4.   with_const_width(0.0, 49 * 5e-324), LEN = 100: step = 0.49 * 2^-1074
//!      rounds to 0, all 101 edges are 0.0, the last edge is 49 ulps (of `end`)
//!      away from end, range_min() == range_max() and the histogram rejects
//!      every sample, including those in [start, end).

use average::define_histogram;
use std::panic::{catch_unwind, AssertUnwindSafe};

define_histogram!(hist2, 2);
define_histogram!(hist3, 3);
define_histogram!(hist100, 100);

#[test]
fn t1_edges_are_non_decreasing_numbers() {
    let h = hist2::Histogram::with_const_width(-1e308, 1e308);
    let r = h.ranges();
    assert_eq!(r[0], -1e308, "first edge must be exactly start, edges = {r:?}");
    assert!(r.windows(2).all(|w| w[0] <= w[1]), "edges = {r:?}");
    assert_eq!(r[1], 0.0);
    assert_eq!(r[2], 1e308);
}

#[test]
fn t2_add_does_not_panic() {
    let mut h = hist2::Histogram::with_const_width(-1e308, 1e308);
    let r = catch_unwind(AssertUnwindSafe(|| h.add(0.0)));
    assert!(r.is_ok(), "add(0.0) panicked on a histogram returned by with_const_width(-1e308, 1e308)");
}

#[test]
fn t3_last_edge_close_to_end() {
    let h = hist3::Histogram::with_const_width(0.0, f64::MAX);
    assert!(h.range_max().is_finite(), "edges = {:?}", h.ranges());
}

#[test]
fn t4_subnormal_width() {
    let tiny = f64::from_bits(1); // 5e-324
    let end = 49.0 * tiny;
    let h = hist100::Histogram::with_const_width(0.0, end);
    let last = h.range_max();
    let ulps = (end.to_bits() as i64 - last.to_bits() as i64).abs();
    assert!(ulps <= 4, "last edge {last:e} is {ulps} ulps away from end {end:e}");
}
