//! Property C16 -- "Empty, one-observation and constant samples follow the documented contract"
//!
//! Clauses violated:
//!   "Every statistic accessor that is undefined for the current sample size
//!    returns its documented sentinel instead of panicking (the one documented
//!    exception being the explicit zero-variance assertion of
//!    standardized_moment for orders >= 3)"
//!   "With one observation x ... every central_moment(p >= 1) [is] exactly 0"
//!
//! Input: average::Moments4 (= define_moments!(Moments4, 4)), one observation
//! x = 1.0, accessor central_moment(5)  (any p > MAX_MOMENT).
//!
//! Observed: PANIC "index out of bounds: the len is 3 but the index is 3"
//! (src/moments/mod.rs:99, `self.m[p - 2]`).  On the *empty* estimator the same
//! call returns NaN (the `self.n > 0` test comes first), so whether
//! central_moment(5) panics depends on the sample size -- exactly what the
//! clause rules out.  Neither the doc comment of central_moment ("If p > 1,
//! returns NaN for an empty sample.") nor that of define_moments! mentions a
//! panic or a bound on p.
//!
//! DOMAIN MEMBERSHIP IS ARGUABLE: the sample (one finite observation) is in the
//! C01 domain and "every central_moment(p >= 1)" puts no upper bound on p, but a
//! reader may take p <= MAX_MOMENT as implied.  Reported for completeness.

use average::Moments4;
use std::panic::{catch_unwind, AssertUnwindSafe};

#[test]
fn central_moment_5_of_one_observation() {
    let empty = Moments4::new();
    assert!(empty.central_moment(5).is_nan()); // fine: documented sentinel

    let mut one = Moments4::new();
    one.add(1.0);
    let r = catch_unwind(AssertUnwindSafe(|| one.central_moment(5)));
    match r {
        Ok(v) => assert_eq!(v, 0.0),
        Err(_) => panic!("central_moment(5) panicked for a one-observation Moments4 (returns NaN for the empty one)"),
    }
}
