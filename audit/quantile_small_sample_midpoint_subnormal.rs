//! C15 (quantile() lies between the smallest and largest observation seen so
//! far, inclusive, for all finite streams) and C07 (with 1..4 observations
//! quantile() is the exact sample p-quantile; when n*p is a whole number it is
//! the average of two adjacent order statistics).
//!
//! The small-sample path computes the midpoint as `0.5 * a + 0.5 * b`.  Each
//! half is rounded separately, so for observations whose halves are not
//! representable (odd multiples of the smallest subnormal, up to and including
//! normal numbers just above f64::MIN_POSITIVE) the "midpoint" of two EQUAL
//! observations differs from them and leaves the data range.

use average::{Estimate, Quantile};

fn median_of_pair(a: f64, b: f64) -> f64 {
    let mut q = Quantile::new(0.5);
    q.add(a);
    q.add(b);
    assert_eq!(q.len(), 2);
    q.quantile()
}

#[test]
fn median_of_two_equal_smallest_subnormals_is_that_value() {
    let x = f64::from_bits(1); // 5e-324, finite
    let got = median_of_pair(x, x);
    // exact median of {x, x} is x; observed: 0.0 (below the minimum)
    assert_eq!(got, x, "median of [{:e}, {:e}] = {:e}", x, x, got);
}

#[test]
fn median_of_two_equal_subnormals_stays_inside_data_range() {
    let x = f64::from_bits(3); // 1.5e-323
    let got = median_of_pair(x, x);
    // observed: 2e-323 (= 4 units), above the maximum 1.5e-323 (= 3 units)
    assert!(got >= x && got <= x, "median of [{:e}, {:e}] = {:e} is outside [min, max]", x, x, got);
}

#[test]
fn median_of_two_equal_tiny_normal_numbers_is_that_value() {
    // A *normal* f64 just above MIN_POSITIVE with an odd mantissa.
    let x = f64::from_bits(f64::MIN_POSITIVE.to_bits() + 1);
    assert!(x.is_normal());
    let got = median_of_pair(x, x);
    assert_eq!(got.to_bits(), x.to_bits(), "median of [{:e}, {:e}] = {:e}", x, x, got);
}

#[test]
fn four_equal_observations_every_whole_np() {
    // n = 4, p in {0.25, 0.5, 0.75}: n*p is whole, the midpoint branch is taken.
    let x = -f64::from_bits(5); // -2.5e-323
    for &p in &[0.25, 0.5, 0.75] {
        let mut q = Quantile::new(p);
        for _ in 0..4 {
            q.add(x);
        }
        let got = q.quantile();
        assert_eq!(got, x, "p = {}: quantile of four copies of {:e} = {:e}", p, x, got);
    }
}
