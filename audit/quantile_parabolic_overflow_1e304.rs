//! C05: "for every p in [0,1] and every stream of finite observations, after
//! each observation from the fifth on, quantile() equals, up to the rounding of
//! the same arithmetic, the height of the middle marker prescribed by the
//! P-square algorithm".
//!
//! (Related to, but distinct from, the known "max - min overflows" defect: here
//! max - min ~ 2e304 is four orders of magnitude below f64::MAX and nothing
//! becomes inf/NaN.)
//!
//! In `parabolic` the products `(n_i - n_{i-1} + d) * (q_{i+1} - q_i)` are formed
//! BEFORE the division by the position gap, so with position gaps of ~1e4..1e5
//! they overflow for marker-height differences of only ~1e304.  The prediction
//! becomes +-inf, fails the `q[i-1] < q_new < q[i+1]` test and the code silently
//! falls back to the linear formula where P-square prescribes the parabolic one.
//!
//! Multiplying a stream by a power of two is exact in binary floating point, so
//! every P-square quantity (heights, differences, the parabolic/linear choice)
//! scales exactly and the estimate of the scaled stream must be bit-for-bit the
//! scaled estimate.  It is for scale 2^900; it is not for 2^1010 (~1.1e304).

use average::{Estimate, Quantile};

fn stream(n: usize) -> Vec<f64> {
    // xorshift64, uniform in [-1, 1)
    let mut s = 0xC0FFEEu64;
    (0..n)
        .map(|_| {
            s ^= s << 13;
            s ^= s >> 7;
            s ^= s << 17;
            (s >> 11) as f64 / (1u64 << 53) as f64 * 2. - 1.
        })
        .collect()
}

fn run(scale: f64, xs: &[f64]) -> Vec<f64> {
    let mut q = Quantile::new(0.5);
    xs.iter()
        .map(|&x| {
            q.add(x * scale); // exact: scale is a power of two, no over/underflow
            q.quantile()
        })
        .collect()
}

#[test]
fn control_scale_2_pow_900_is_exactly_equivariant() {
    let xs = stream(200_000);
    let base = run(1.0, &xs);
    let scaled = run(2f64.powi(900), &xs);
    for i in 4..xs.len() {
        assert_eq!(scaled[i], base[i] * 2f64.powi(900), "observation {}", i + 1);
    }
}

#[test]
fn scale_2_pow_1010_follows_p_square_too() {
    let xs = stream(200_000);
    let scale = 2f64.powi(1010); // ~1.1e304, all |x| <= 1.1e304, max - min <= 2.2e304
    let base = run(1.0, &xs);
    let scaled = run(scale, &xs);
    for i in 4..xs.len() {
        assert!(scaled[i].is_finite());
        assert_eq!(
            scaled[i],
            base[i] * scale,
            "after observation {}: estimate {:e}, P-square prescribes {:e}",
            i + 1,
            scaled[i],
            base[i] * scale
        );
    }
}
