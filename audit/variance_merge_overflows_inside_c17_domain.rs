//! C17: "for every input ... and every history of adds and merges:
//! population_variance, sample_variance, variance_of_mean and the x/y variances
//! of Covariance are >= 0 whenever defined, so error() is a real number", over
//! "all sequences of finite values with |x| <= 1e150 ... all chunkings and merge
//! trees".
//!
//! Variance::merge (and Covariance::merge, and everything built on Variance:
//! Skewness, Kurtosis, WeightedMeanWithError) evaluates
//! `delta*delta * len_self * len_other / len_total` left to right, so the
//! intermediate delta^2 * n_a * n_b overflows although the result
//! delta^2 * n_a*n_b/(n_a+n_b) is far below f64::MAX.  With 10^4 copies of
//! -1e150 merged with 10^4 copies of +1e150 the exact population variance is
//! 1e300 (single pass: 9.99999999999999e299, define_moments! merge: 1e300), but
//! the merged Variance reports +inf and error() = +inf, which is not a real
//! number.  Covariance additionally turns pearson() into NaN.

use average::{Covariance, Kurtosis, Merge, Variance, WeightedMeanWithError};

const N: usize = 10_000;

#[test]
fn variance_merge_stays_finite() {
    let a: Variance = core::iter::repeat(-1e150).take(N).collect();
    let b: Variance = core::iter::repeat(1e150).take(N).collect();
    let mut m = a.clone();
    m.merge(&b);
    assert_eq!(m.len(), 2 * N as u64);
    // exact: 1e300
    assert!(
        m.population_variance().is_finite(),
        "population_variance = {:e}, exact value 1e300",
        m.population_variance()
    );
    assert!((m.population_variance() / 1e300 - 1.).abs() < 1e-6);
    assert!(m.error().is_finite(), "error() = {:e}", m.error());
}

#[test]
fn kurtosis_and_weighted_reexports_stay_finite() {
    let a: Kurtosis = core::iter::repeat(-1e150).take(N).collect();
    let b: Kurtosis = core::iter::repeat(1e150).take(N).collect();
    let mut m = a.clone();
    m.merge(&b);
    assert!(m.population_variance().is_finite(), "Kurtosis::population_variance = {:e}", m.population_variance());
    assert!(m.error_mean().is_finite());

    let a: WeightedMeanWithError = core::iter::repeat((-1e150, 1.0)).take(N).collect();
    let b: WeightedMeanWithError = core::iter::repeat((1e150, 1.0)).take(N).collect();
    let mut m = a.clone();
    m.merge(&b);
    assert!(m.sample_variance().is_finite(), "WeightedMeanWithError::sample_variance = {:e}", m.sample_variance());
    assert!(m.error().is_finite());
}

#[test]
fn covariance_merge_stays_finite() {
    let a: Covariance = core::iter::repeat((-1e150, 1e150)).take(N).collect();
    let b: Covariance = core::iter::repeat((1e150, -1e150)).take(N).collect();
    let mut m = a.clone();
    m.merge(&b);
    // exact: variances 1e300, covariance -1e300, pearson -1
    assert!(m.population_variance_x().is_finite(), "variance_x = {:e}", m.population_variance_x());
    assert!(m.population_variance_y().is_finite(), "variance_y = {:e}", m.population_variance_y());
    assert!(!m.pearson().is_nan(), "pearson = {:e}", m.pearson());
}
