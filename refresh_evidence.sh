#!/bin/bash
# Re-run every quick check on /repo's current tree and verify the evidence files are those of a
# clean run (used before committing, after any experiment that ran checks against a patched tree).
cd /verif
[ -z "$(git -C /repo status --porcelain)" ] || { echo "/repo has uncommitted changes"; exit 1; }
fail=0
for i in $(seq -w 1 20); do ./check C$i quick >/tmp/refresh.C$i 2>&1 || { echo "C$i exit $?"; fail=1; }; done
python3 - <<'PY' || fail=1
import json,glob,sys
bad=[f for f in sorted(glob.glob('/verif/evidence/C*.json')) if json.load(open(f)).get('violations')!=0 or json.load(open(f)).get('tier')!='quick']
print("evidence ok" if not bad else f"BAD evidence: {bad}")
sys.exit(1 if bad else 0)
PY
exit $fail
