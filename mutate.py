#!/usr/bin/env python3
"""Systematic syntactic mutation sweep (a diagnostic, not a registered check).

Every single-token mutation of /repo/src (arithmetic, relational and logical operators, small
constants) is applied to a private copy of the repository; a mutant that still compiles AND
still passes the repository's own test suite is then confronted with all twenty quick checks.
Survivors (passed by the suite and by every check) are listed for manual analysis: each is either
an equivalent mutant or a blind spot of the checks.

usage: mutate.py [--workers 8] [--limit N] [--out /verif/mutation] [--files a.rs,b.rs]
Scratch copies live under /var/tmp/avgmc-mut and are removed at the end.
"""
import json, os, re, shutil, subprocess, sys, time
from concurrent.futures import ThreadPoolExecutor

REPO = "/repo"
NIGHTLY = "--nightly" in sys.argv  # sweep of src/histogram_const.rs (exists only with the nightly feature)
SCRATCH = "/var/tmp/avgmc-mut"
ENV = dict(os.environ, CARGO_NET_OFFLINE="true")

BINOPS = [
    (r"(?<=[\w\)\]\.]) \+ (?=[\w\(\-])", [" - "]),
    (r"(?<=[\w\)\]\.]) - (?=[\w\(\-])", [" + "]),
    (r"(?<=[\w\)\]\.]) \* (?=[\w\(\-])", [" / ", " + "]),
    (r"(?<=[\w\)\]\.]) / (?=[\w\(\-])", [" * "]),
    (r"(?<=[\w\)\]\.])\*(?=[\w\(])", ["/"]),
    (r"(?<=[\w\)\]\.])/(?=[\w\(])", ["*"]),
    (r" \+= ", [" -= "]),
    (r" -= ", [" += "]),
    (r" \*= ", [" /= "]),
    (r"(?<=[\w\)\]\.]) < (?=[\w\(\-])", [" <= ", " > "]),
    (r"(?<=[\w\)\]\.]) <= (?=[\w\(\-])", [" < "]),
    (r"(?<=[\w\)\]\.]) > (?=[\w\(\-])", [" >= ", " < "]),
    (r"(?<=[\w\)\]\.]) >= (?=[\w\(\-])", [" > "]),
    (r" == ", [" != "]),
    (r" != ", [" == "]),
    (r" && ", [" || "]),
    (r" \|\| ", [" && "]),
    (r"(?<![\w\.])1\.(?![\w\.])", ["2.", "0."]),
    (r"(?<![\w\.])2\.(?![\w\.])", ["3.", "1."]),
    (r"(?<![\w\.])3\.(?![\w\.])", ["2.", "4."]),
    (r"(?<![\w\.])4\.(?![\w\.])", ["3."]),
    (r"(?<![\w\.])6\.(?![\w\.])", ["5."]),
    (r"(?<![\w\.])0\.5(?![\w\.])", ["0.25"]),
    (r"(?<![\w\.])1\.5(?![\w\.])", ["2.5"]),
    (r"(?<=[\w\)\]]) - 1(?![\w\.])", [" - 2", " + 1", ""]),
    (r"(?<=[\w\)\]]) \+ 1(?![\w\.])", [" + 2", " - 1", ""]),
    (r"(?<=[\w\)\]]) - 2(?![\w\.])", [" - 1", " - 3"]),
    (r"(?<=[\w\)\]]) - 3(?![\w\.])", [" - 2"]),
    (r"\.min\(", [".max("]),
    (r"\.max\(", [".min("]),
    (r"f64::INFINITY", ["f64::NEG_INFINITY", "f64::MAX"]),
    (r"f64::NEG_INFINITY", ["f64::INFINITY", "f64::MIN"]),
    (r"f64::NAN", ["0."]),
    (r"\.is_empty\(\)", [".is_empty() == false"]),
    (r"\.is_nan\(\)", [".is_infinite()"]),
    (r"\bceil\(\)", ["floor()"]),
    (r"\bsqrt\b", ["abs"]),
]

def code_lines(path):
    """(line number, text) of lines that are code (no comments, docs, attributes, tests)."""
    out = []
    in_test = False
    for i, l in enumerate(open(path).read().split("\n")):
        t = l.strip()
        if t.startswith("#[test]"):
            in_test = True
        if in_test:
            continue
        if not t or t.startswith("//") or t.startswith("#[") or t.startswith("#!["):
            continue
        if t.startswith("assert_eq!(q.") or "debug_assert" in t:
            continue
        code = l.split("//")[0]
        out.append((i, code))
    return out

def mutants(files):
    ms = []
    for f in files:
        path = os.path.join(REPO, f)
        for ln, code in code_lines(path):
            for pat, reps in BINOPS:
                for m in re.finditer(pat, code):
                    for r in reps:
                        ms.append({"file": f, "line": ln, "start": m.start(), "end": m.end(), "old": m.group(0), "new": r, "text": code.strip()[:160]})
    return ms

def deletion_mutants(files):
    """statement deletions: single-line assignments / compound assignments, and
    `if cond { return...; }` early-return blocks (1 or 3 lines)"""
    ms = []
    for f in files:
        path = os.path.join(REPO, f)
        lines = open(path).read().split("\n")
        in_test = False
        for i, l in enumerate(lines):
            t = l.strip()
            if t.startswith("#[test]"):
                in_test = True
            if in_test:
                continue
            if re.match(r"^(self\.[\w\.\[\]\- ]+|\*?\w+(\[[^\]]+\])?) (\+|-|\*|/)?= [^=].*;$", t) and not t.startswith("let "):
                ms.append({"file": f, "line": i, "start": 0, "end": len(l), "old": l, "new": "", "text": "DELETE: " + t[:140], "kind": "delete-line"})
            if re.match(r"^if .*\{$", t) and i + 2 < len(lines) and lines[i + 1].strip().startswith("return") and lines[i + 2].strip() == "}":
                ms.append({"file": f, "line": i, "start": 0, "end": len(l), "old": l, "new": "", "text": "DELETE BLOCK: " + t[:100] + " " + lines[i + 1].strip()[:40] + " }", "kind": "delete-block", "span": 3})
    return ms

def run(cmd, cwd, timeout=900):
    try:
        p = subprocess.run(cmd, cwd=cwd, shell=True, executable="/bin/bash", env=ENV, stdout=subprocess.PIPE, stderr=subprocess.STDOUT, text=True, timeout=timeout)
        return p.returncode, p.stdout
    except subprocess.TimeoutExpired:
        return 124, "timeout"

def setup_worker(k):
    w = f"{SCRATCH}/w{k}"
    shutil.rmtree(w, ignore_errors=True)
    os.makedirs(w)
    run(f"rsync -a --exclude target --exclude .git {REPO}/ {w}/repo/", "/")
    run(f"rsync -a --exclude target /verif/mc/ {w}/mc/", "/")
    ct = open(f"{w}/mc/Cargo.toml").read().replace('path = "/repo"', f'path = "{w}/repo"')
    open(f"{w}/mc/Cargo.toml", "w").write(ct)
    cfg = open(f"{w}/mc/.cargo/config.toml").read().replace('/verif/target', f'{w}/target')
    open(f"{w}/mc/.cargo/config.toml", "w").write(cfg)
    os.makedirs(f"{w}/out", exist_ok=True)
    # warm builds
    if NIGHTLY:
        run("cargo +nightly test --offline --features nightly --no-run", f"{w}/repo")
        rc, out = run("cargo +nightly build --profile constq --features nightly --offline 2>&1", f"{w}/mc")
        if rc != 0 or "Finished" not in out:
            raise SystemExit(f"worker {k}: the nightly engine copy does not build:\n{out[-2000:]}")
        return w
    run("cargo test --offline --no-run", f"{w}/repo")
    rc, out = run("cargo build --release --offline 2>&1", f"{w}/mc")
    if rc != 0 or "Finished" not in out:
        raise SystemExit(f"worker {k}: the engine copy does not build:\n{out[-2000:]}")
    # the unmutated copy must pass: a worker that alarms on the original tree is useless
    rc, out = run(f"AVGMC_OUT={w}/out {w}/target/release/avgmc --property C10 --tier quick 2>/dev/null | tail -1", f"{w}/mc")
    if "new_violations=0" not in out:
        raise SystemExit(f"worker {k}: sanity run failed: {out}")
    return w

def evaluate(w, m):
    path = f"{w}/repo/{m['file']}"
    orig = open(os.path.join(REPO, m["file"])).read()
    lines = orig.split("\n")
    l = lines[m["line"]]
    if m.get("kind") == "delete-block":
        for k in range(m["span"]):
            lines[m["line"] + k] = ""
    else:
        lines[m["line"]] = l[:m["start"]] + m["new"] + l[m["end"]:]
    open(path, "w").write("\n".join(lines))
    res = dict(m)
    try:
        tcmd = "cargo +nightly test --offline --features nightly" if NIGHTLY else "cargo test --offline"
        rc, out = run(tcmd + " 2>&1 | grep -E '^test result|^error|FAILED|panicked' | head -8", f"{w}/repo", timeout=600)
        if "error" in out and "test result" not in out:
            res["status"] = "does-not-compile"
            return res
        if "FAILED" in out or out.count("test result: ok") < 3:
            res["status"] = "killed-by-repo-tests"
            return res
        bcmd = "cargo +nightly build --profile constq --features nightly --offline 2>&1" if NIGHTLY else "cargo build --release --offline 2>&1"
        rc, out = run(bcmd, f"{w}/mc", timeout=900)
        if rc != 0 or "Finished" not in out:
            res["status"] = "engine-does-not-compile"
            return res
        env = f"AVGMC_OUT={w}/out"
        alarms = []
        binary = f"{w}/target/constq/avgmc" if NIGHTLY else f"{w}/target/release/avgmc"
        only = " --only Const" if NIGHTLY else ""
        for i in ([6, 12, 13] if NIGHTLY else range(1, 21)):
            pid = f"C{i:02d}"
            rc, out = run(f"{env} timeout 600 {binary} --property {pid} --tier quick{only} 2>/dev/null | grep -E '^VIOLATION|signature=|^property=|ENGINE' | head -3; echo rc=${{PIPESTATUS[0]}}", f"{w}/mc", timeout=700)
            res.setdefault("log", []).append(pid + " " + out.strip().replace("\n", " | ")[-160:])
            if "rc=124" in out or "rc=137" in out:
                res["status"] = "TIMEOUT-OR-KILLED"
                res["alarms"] = [pid]
                return res
            if "VIOLATION" in out:
                sig = re.findall(r"signature=(\S+)", out)
                alarms.append(pid + ":" + (sig[0] if sig else "?"))
                break  # one detecting check is enough
        res["status"] = "detected" if alarms else "SURVIVED"
        res["alarms"] = alarms
        return res
    finally:
        open(path, "w").write(orig)

def main():
    workers = 8
    limit = None
    out_dir = "/verif/mutation"
    files = ["src/moments/mean.rs", "src/moments/variance.rs", "src/moments/skewness.rs", "src/moments/kurtosis.rs", "src/moments/mod.rs",
             "src/quantile.rs", "src/histogram.rs", "src/minmax.rs", "src/weighted_mean.rs", "src/covariance.rs", "src/traits.rs", "src/macros.rs"]
    a = sys.argv
    if "--workers" in a:
        workers = int(a[a.index("--workers") + 1])
    if "--limit" in a:
        limit = int(a[a.index("--limit") + 1])
    if "--out" in a:
        out_dir = a[a.index("--out") + 1]
    if "--files" in a:
        files = a[a.index("--files") + 1].split(",")
    ms = deletion_mutants(files) if "--deletions" in a else mutants(files)
    if "--only-survivors" in a:
        prev = json.load(open(f"{out_dir}/results.json"))
        keep = {(x["file"], x["line"], x["start"], x["new"]) for x in prev if x["status"] in ("SURVIVED", "TIMEOUT-OR-KILLED")}
        ms = [m for m in ms if (m["file"], m["line"], m["start"], m["new"]) in keep]
        out_dir = out_dir + "/recheck"
    if limit:
        step = max(1, len(ms) // limit)
        ms = ms[::step][:limit]
    print(f"{len(ms)} mutants, {workers} workers", flush=True)
    os.makedirs(out_dir, exist_ok=True)
    ws = [setup_worker(k) for k in range(workers)]
    print("workers ready", flush=True)
    results = []
    t0 = time.time()
    import queue
    q = queue.Queue()
    for m in ms:
        q.put(m)
    def work(w):
        while True:
            try:
                m = q.get_nowait()
            except queue.Empty:
                return
            r = evaluate(w, m)
            results.append(r)
            if len(results) % 10 == 0 or r["status"] == "SURVIVED":
                c = {}
                for x in results:
                    c[x["status"]] = c.get(x["status"], 0) + 1
                print(f"[{time.time()-t0:6.0f}s] {len(results)}/{len(ms)} {c}" + (f"  SURVIVED: {r['file']}:{r['line']+1} {r['old']!r}->{r['new']!r} in `{r['text']}`" if r["status"] == "SURVIVED" else ""), flush=True)
            json.dump(sorted(results, key=lambda x: (x["file"], x["line"], x["start"], x["new"])), open(f"{out_dir}/results.json", "w"), indent=1)
    with ThreadPoolExecutor(max_workers=workers) as ex:
        list(ex.map(work, ws))
    c = {}
    for x in results:
        c[x["status"]] = c.get(x["status"], 0) + 1
    print("DONE", c, flush=True)
    with open(f"{out_dir}/summary.txt", "w") as f:
        f.write(f"{len(results)} mutants: {c}\n\nSurvivors (pass the repository's suite and all twenty quick checks):\n")
        for x in sorted(results, key=lambda x: (x["file"], x["line"])):
            if x["status"] == "SURVIVED":
                f.write(f"  {x['file']}:{x['line']+1}  {x['old']!r} -> {x['new']!r}   in `{x['text']}`\n")
    shutil.rmtree(SCRATCH, ignore_errors=True)

if __name__ == "__main__":
    main()
