#!/bin/bash
# Diagnostic (not a registered check): which lines of /repo/src do the quick checks execute?
# Builds the engine with `cargo +nightly` and -C instrument-coverage outside /repo and /verif,
# runs every quick check, prints llvm-cov's per-file report and removes the build again.
set -e
export CARGO_NET_OFFLINE=true
T=/var/tmp/avgmc-cov
BIN=$(dirname "$(rustup +nightly which rustc)")/../lib/rustlib/x86_64-unknown-linux-gnu/bin
mkdir -p $T/raw
( cd /verif/mc && RUSTFLAGS="-C instrument-coverage" cargo +nightly build --release --offline --features nightly --target-dir $T/target >/dev/null 2>&1 )
for i in $(seq -w 1 20); do LLVM_PROFILE_FILE=$T/raw/C$i-%p.profraw $T/target/release/avgmc --property C$i --tier quick >/dev/null 2>&1 || true; done
# the instrumented runs rewrote the evidence files: regenerate them with the normal build
$BIN/llvm-profdata merge -sparse $T/raw/*.profraw -o $T/all.profdata
$BIN/llvm-cov report $T/target/release/avgmc -instr-profile=$T/all.profdata --sources /repo/src
rm -rf $T; rm -f /repo/default_*.profraw /verif/mc/default_*.profraw /verif/default_*.profraw
for i in $(seq -w 1 20); do /verif/check C$i quick >/dev/null 2>&1 || echo "C$i did not exit 0"; done
