#!/usr/bin/env python3
"""Regenerates /verif/MANIFEST.json from the table below (kept in one place so the manifest
stays valid while checks are added)."""
import json, os, sys

HERE = os.path.dirname(os.path.abspath(__file__))

# id -> (design_ref, text, note, technique)
CLAIMED = {}

def claim(pid, text, note, technique):
    CLAIMED[pid] = (f"DESIGN.md §6 {pid}", text, note, technique)

BOUNDED = ("Covers exactly the named alphabets and depth bounds (reported in the evidence); values outside the alphabets, "
           "longer histories and other float back ends than the ones run are not covered. Trusted: the engine's exact big-integer "
           "oracle (self-tested against Python fractions), rustc/LLVM IEEE-754 semantics.")

claim("C01",
      "Bounded exhaustive exploration of the real Mean/Variance: every add-sequence over thirteen adversarial value alphabets (offsets up to 1e11 spreads, mixed magnitudes 1e±30, tiny and huge scales) up to the depth bound, plus long lasso streams (every short word repeated to 7e4 / 1e6 observations), "
      "every prefix judged against exact rational statistics of its multiset under the DESIGN.md §4 envelopes (linear in kappa). "
      "A wrong formula or an unstable (kappa^2) formulation leaves the envelope by orders of magnitude on the offset alphabets; "
      "unit tests cannot do this because they have no oracle for arbitrary data.",
      BOUNDED,
      "explicit-state BFS over add histories of the real estimator, exact-rational reference oracle on every transition")

claim("C05",
      "Bounded exhaustive exploration of the real Quantile next to a from-the-paper P² reference: for 13 values of p, every stream over a tie-heavy 4-value and a distinct 6-value alphabet up to the depth bound (plus trending streams in the thorough tier); after each observation from the fifth, quantile() and the serde-visible marker heights and positions must equal the reference (positions exactly, heights within 2^-40 of the data span). "
      "Long streams are covered as a finite family: every word of length <= 3 (4) over {0,1,2,3} repeated to 1000 (10^4) observations with linear trend 0, +0.5, -0.5 per step. New minima/maxima, ties, p = 0/1 and all arrival orders are members of the enumerated families, which the suite's three fixed streams never reach.",
      BOUNDED + " The reference model is trusted to transcribe Jain & Chlamtac 1985, Box 1.",
      "explicit-state BFS over add histories of the real estimator in lock-step with a reference model (P² as printed in the paper)")

claim("C06",
      "Exhaustive product enumeration on the real macro-generated histograms: every edge vector from_ranges accepts over the 9-value edge lattice for LEN 1..4 (and every non-decreasing vector over 3-/4-value lattices, with infinite outer edges, for LEN 10 and 100) x a sample set built from every edge, its floating-point neighbours, midpoints, +-inf, NaN, +-0, +-MAX; find() and add() are compared with a linear bin scan; plus BFS over add histories with ghost bins and a ghost success counter.",
      BOUNDED + " LEN 10/100 are covered on structured lattice families, not on all edge vectors. The const-generic implementation (nightly) is covered by the thorough tier only.",
      "exhaustive enumeration of configurations x inputs on the real code against a linear-scan reference; BFS over add histories with ghost state")

claim("C07",
      "Exhaustive: every p in {0,1} U {k/n, k/n +- 1ulp} U pgrid x every sequence of 1..4 observations over a 5-value alphabet (all permutations of all multisets, duplicates included); quantile() after every add against the exact sample quantile with n·p evaluated in integer arithmetic.",
      BOUNDED,
      "explicit-state BFS (depth 4) over add histories of the real estimator against an exact small-sample reference")

claim("C10",
      "Bounded exhaustive exploration: every add-sequence over seven alphabets (skew of both signs, offsets) for Variance, Skewness, Kurtosis and define_moments! types of order 4, 6, 10; sample_variance, variance_of_mean, error, sample_skewness and sample_excess_kurtosis at every prefix (below-minimum sizes included) against the textbook formulas on exact rational central moments, under the C03/C04 envelopes; plus lasso streams to 7e4 / 1e6 observations and doubling merges to n = 2^41.",
      BOUNDED,
      "explicit-state BFS over add histories of the real estimators, exact-rational reference oracle on every transition")

claim("C15",
      "Invariant checking on every reachable state of the C05 stream families from the first observation on: len/is_empty/p() read-back, quantile() NaN iff empty and otherwise inside the ghost [min,max], from five observations on serialised marker heights non-decreasing with first = running minimum and last = running maximum; constant streams to length 40/400; constructor grid (panic iff p outside [0,1] or NaN); streams over {-1.7e308, 0, 1.7e308}, whose span overflows f64 (one genuine defect found there is recorded in known_findings.txt and reported as KNOWN-FINDING).",
      BOUNDED,
      "explicit-state BFS over add histories of the real estimator with state invariants and ghost min/max")

claim("C02",
      "Merge-tree exploration by intervals on the real collect()/merge(): for every word over 4-letter sub-alphabets of six adversarial alphabets (and 2-/3-letter alphabets to greater length) the set of ALL states producible by any composition into contiguous, possibly empty chunks and any binary merge tree, either merge direction at every node, is computed bottom-up and every state is judged against the exact statistics of the word under the single-pass envelopes; Mean, Variance, Skewness, Kurtosis, Moments4 and engine-defined define_moments! types of order 5, 6, 8, 10. Large n is reached by doubling merges (an estimator merged with itself up to 34/40 times and all cross merges of two such chains, n up to 2^41), judged against the exact statistics of the weighted multiset.",
      BOUNDED + " Word length is bounded (5 quick / 6-9 thorough); long streams are not covered.",
      "exhaustive bottom-up enumeration of all merge trees over all chunkings of every short word on the real code, exact-rational oracle on every reachable state")

claim("C03",
      "Bounded exhaustive exploration of the real Skewness/Kurtosis: every add-sequence over nine alphabets (asymmetric both ways, single outlier, two-point, arithmetic progression, offsets of 1e9 spreads) up to the depth bound; skewness, kurtosis and the re-exported mean/variances at every prefix against exact rational central moments under the section-4 envelopes.",
      BOUNDED,
      "explicit-state BFS over add histories of the real estimators, exact-rational reference oracle on every transition")

claim("C04",
      "Bounded exhaustive exploration of define_moments! types of order 4, 5, 6, 8, 10 (orders above 4 are instantiated by the engine; the suite never does): every add-sequence over nine alphabets up to the depth bound, len/mean/central_moment(p)/standardized_moment(p) for every p <= N at every prefix against exact rational central moments (C_p envelopes, domain n·max|x|^N < 1e300), plus agreement with Mean/Variance/Skewness/Kurtosis fed the same history.",
      BOUNDED,
      "explicit-state BFS over add histories of macro-generated estimators of several orders, exact-rational reference oracle on every transition")

claim("C08",
      "Bounded exhaustive exploration of the real WeightedMean/WeightedMeanWithError: every sequence of (x, w) pairs over product alphabets with a zero weight possible at every position (first included) and weights across twelve orders of magnitude, plus the all-merge-trees interval exploration with zero-weight chunks; every accessor against exact rational weighted sums whenever the exact total weight is positive.",
      BOUNDED,
      "explicit-state BFS over add histories plus exhaustive merge-tree enumeration on the real code, exact-rational oracle")

claim("C09",
      "Bounded exhaustive exploration of the real Covariance: every sequence over five pair alphabets (partial correlation, exactly collinear and anti-collinear, independent offsets, mixed magnitudes) and their swapped twins, plus the all-merge-trees interval exploration; all ten accessors against exact rational means, Sxx, Syy, Sxy; the swap clause is decided by judging the swapped stream against its own exact statistics.",
      BOUNDED + " Covariance/pearson are judged only when both coordinates have non-zero spread (the envelope's scale is zero otherwise).",
      "explicit-state BFS over add histories plus exhaustive merge-tree enumeration on the real code, exact-rational oracle")

claim("C11",
      "For every Merge type (Mean, Variance, Skewness, Kurtosis, Moments4, M6, M10, Min, Max, WeightedMean, WeightedMeanWithError, Covariance, histograms LEN 2 and 10): the set of states reachable by rounds of add and of merge over ALL pairs of already reachable states is enumerated on the real code; for every reachable a, a.merge(new()) and new().merge(a) must leave every accessor bit-for-bit equal to a's and the argument's Debug string unchanged, is_empty <=> len == 0, and for every pair (a, b) up to the cap the merged len is exactly len a + len b.",
      BOUNDED + " Pair checks are capped (cap reported in the evidence).",
      "exhaustive reachable-set enumeration (fixpoint rounds over add and pairwise merge) on the real code with differential bit-level oracles")

claim("C12",
      "Exhaustive input enumeration on the real from_ranges/with_const_width: LEN 1..4: every list of length 0..LEN+3 over the 9-value lattice of the statement; LEN 10/100: a valid base list with every single and every pair of defects at every position plus truncations; acceptance, error kind of the first offending position, ranges() bit-for-bit and zero counts against a reference walk; with_const_width over every ordered pair of a 30-order-of-magnitude lattice with edges compared to the exact rational start + i(end-start)/LEN within 8 ulp.",
      BOUNDED + " 'A few ulps' is read as 8 ulps of max(|start|,|end|).",
      "exhaustive enumeration of constructor inputs on the real code against a first-offending-position reference and an exact-rational edge oracle")

claim("C13",
      "BFS over pools of three real histograms (two on edge vector A, one on B which differs numerically, is equal, or differs only in the sign of a zero) with add, merge, +=, *= k, reset, clone; ghost bin vectors decide every transition: merge and += give the bin-wise sum and agree, different edges panic with both operands unchanged, *= and reset exact, edges untouched, iter() yields exactly LEN items in edge order, widths/centers/normalized_bins equal the literal IEEE expressions, variance(i) == variances()[i] == count(1-count/total).",
      BOUNDED + " Commutativity/associativity follow from every reachable merge result equalling the bin-wise sum of its operands' ghosts.",
      "explicit-state BFS over operation histories of a pool of real histograms with ghost state")

claim("C14",
      "BFS to a FIXPOINT over the 8-value alphabet {-inf,-1,-0.0,0.0,5e-324,1,+inf,NaN}: initial states new(), default(), from_value(v), collect of every word of length <= 2 (by value and by reference); operations add, merge(from_value(v)), merge(new()), merge(collect(w)), collect(w).merge(self), extend; ghost extreme of the non-NaN observations. The state space is finite and closes, so the verdict covers histories of any length over this alphabet.",
      "Values outside the 8-value alphabet are not covered; " + BOUNDED,
      "explicit-state BFS to fixpoint (closed finite state space) on the real Min/Max with a ghost extreme")

claim("C16",
      "A sentinel table in code, evaluated on the real estimators: every public estimator type x every statistic accessor (each call guarded by catch_unwind) x the empty estimator, one observation and constant add-only streams of eight values at every length up to 1000 (10^4 thorough), including all-zero-weight streams for the weighted types; the only accepted panic is the documented zero-variance assertion of standardized_moment(p >= 3).",
      BOUNDED + " The below-minimum-size sentinels on non-constant data are decided by C09/C10/C15.",
      "explicit-state BFS over constant add histories of every estimator type against the documented sentinel table")

claim("C17",
      "No restriction on kappa: alphabets with offsets 1e15 times the spread, spreads of one ulp, subnormals, |x| = 1e150 and mixed magnitudes; every add-sequence up to the depth bound AND every merge tree over every chunking (interval exploration) for Mean, Variance, Skewness, Kurtosis, Moments4, M6, Covariance, WeightedMean(WithError); on every reachable state every variance-type accessor is >= 0 and not NaN whenever defined, every mean lies inside the data range up to 8·n·u·max|x|, effective_len in [1, len]; histogram bin variances for every count vector of total <= 6; plus merges of constant runs of ADJACENT floating-point values (nine base values, neighbour distance 1..3 ulps, all run lengths up to 8/16, three-run nestings), where an unsafe cross term goes negative.",
      BOUNDED,
      "explicit-state BFS plus exhaustive merge-tree enumeration on the real code with sign/range invariants on every state")

claim("C18",
      "For every serialisable estimator type (incl. Quantile at four p, histograms LEN 2/10/100): BFS over add, merge(collect(w)) and checkpoint = serde_json(float_roundtrip) round trip replacing the object; at EVERY reachable state the checkpoint transition is checked differentially with no expected values: serialising leaves the estimator unchanged, the restored copy's Debug string and every accessor are bit-identical, and every continuation of up to two further operations stays bit-identical on both copies; plus long periodic streams with a checkpoint after EVERY observation, the restored copy carried forward next to the uninterrupted one (Quantile at eight values of p incl. non-dyadic ones).",
      BOUNDED + " States with a non-finite field (fresh Min/Max) are outside the statement and skipped (counted).",
      "explicit-state BFS with a checkpoint/restore transition at every state and a differential (restored vs uninterrupted) oracle over all 2-step continuations")

claim("C19",
      "Decided at the rayon plumbing seam: a scripted ParallelIterator drives the crate's real FromParallelIterator impls (fold(new, add).reduce(new, merge)) through EVERY binary split tree over every composition of every short word (188 trees for 6 items, empty leaves, both execution orders for small trees), for f64 and &f64, sequentially and deterministically; len exact, Min/Max exactly sequential, every statistic inside the envelope of the exact statistics. Bound to real rayon by trace validation: real pools of 1..16 threads x with_min_len/with_max_len over a logging producer; every recorded split tree is replayed through the scripted driver and must give the bit-identical estimator. Long inputs (2^17+3 / 10^6+3 items) run through ten split-tree shapes.",
      BOUNDED + " rayon's scheduler (deques, latches) is trusted: it is not written against loom/shuttle types and cannot be intercepted; it is assumed to honour the documented Consumer/Folder/Reducer protocol.",
      "exhaustive enumeration of all consumer split trees at the rayon plumbing seam on the real code, plus conformance replay of split trees recorded from real rayon pools")

claim("C20",
      "For every type with FromIterator/Extend: every sequence up to the length bound over 3-value alphabets built through every initial piece (new, default, collect by value, collect by reference) followed by every composition into pieces fed by add loop / extend(values) / extend(references) (empty extends included); Debug string and every accessor bit-identical to the plain add loop, estimate() bit-equal to the headline accessor; four engine-defined concatenate! structs (2-4 fields, short and long syntax, with Quantile) compared accessor by accessor with the solo estimators for new(), default() and both collect forms; plus single long pieces (255..4096 items) through extend/collect against the add loop.",
      BOUNDED,
      "explicit-state BFS over ingestion histories of the real estimators with a differential oracle (plain add loop)")

ALL = [f"C{i:02d}" for i in range(1, 21)]

def main():
    checks = []
    for pid in ALL:
        if pid not in CLAIMED:
            continue
        ref, text, note, tech = CLAIMED[pid]
        checks.append({
            "property_id": pid,
            "quick_cmd": f"./check {pid} quick",
            "thorough_cmd": f"./check {pid} thorough",
            "evidence_file": f"/verif/evidence/{pid}.json",
            "replay_cmd_template": f"./check {pid} --replay {{path}}",
            "engine": "avgmc",
            "level_claimed": {"category": "model_checking", "text": text, "design_ref": ref},
            "level_note": note,
            "technique": tech,
        })
    na = [{"property_id": p, "reason": "check not built yet at this commit (work in progress; see DESIGN.md §6 for the planned bounded exhaustive check)"}
          for p in ALL if p not in CLAIMED]
    man = {
        "version": 1,
        "setup_cmd": "./check --setup",
        "hooks": {
            "guard": "vks_average_verif",
            "enable": "none needed: all state is observed through the public API (Debug, serde, accessors); the guard name is reserved and unused",
            "baseline_off_cmd": "cd /repo && cargo test --workspace --no-fail-fast --offline",
            "source_commits": [],
            "add_only": True,
        },
        "engines": [{
            "name": "avgmc",
            "path": "/verif/mc",
            "serves_properties": [c["property_id"] for c in checks],
            "kind_free_text": "own explicit-state explorer (level-synchronous BFS, full-key deduplication, shortest counterexample paths) that executes the real `average` code on every transition, with exact-rational / from-the-paper reference oracles; stateright used as an independent cross-check enumerator",
        }],
        "checks": checks,
        "not_applicable": na,
        "notes": "Every check rebuilds the engine against /repo's current working tree (cargo path dependency). Exit 0 held / 1 VIOLATION / 2 ENGINE-ERROR (machinery fault, never a verdict). Known findings: /verif/known_findings.txt.",
    }
    # kept even when empty: every property is claimed, and the list says so explicitly
    with open(os.path.join(HERE, "MANIFEST.json"), "w") as f:
        json.dump(man, f, indent=1)
        f.write("\n")
    try:
        import jsonschema
        jsonschema.validate(man, json.load(open("/root/.vp/MANIFEST.schema.json")))
        print("MANIFEST.json valid;", len(checks), "checks,", len(na), "not applicable")
    except ImportError:
        print("MANIFEST.json written (jsonschema not available to validate)")

if __name__ == "__main__":
    main()
