#!/usr/bin/env python3
"""Regenerates /verif/MANIFEST.json from the table below (kept in one place so the manifest
stays valid while checks are added)."""
import json, os, sys

HERE = os.path.dirname(os.path.abspath(__file__))

# id -> (design_ref, text, note, technique)
CLAIMED = {}

def claim(pid, text, note, technique):
    CLAIMED[pid] = (f"DESIGN.md §6 {pid}", text, note, technique)

BOUNDED = ("Covers exactly the named alphabets and depth bounds (reported in the evidence); values outside the alphabets, "
           "longer histories and other float back ends than the ones run are not covered. Trusted: the engine's exact big-integer "
           "oracle (self-tested against Python fractions), rustc/LLVM IEEE-754 semantics.")

claim("C01",
      "Bounded exhaustive exploration of the real Mean/Variance: every add-sequence over eleven adversarial value alphabets up to the depth bound, "
      "every prefix judged against exact rational statistics of its multiset under the DESIGN.md §4 envelopes (linear in kappa). "
      "A wrong formula or an unstable (kappa^2) formulation leaves the envelope by orders of magnitude on the offset alphabets; "
      "unit tests cannot do this because they have no oracle for arbitrary data.",
      BOUNDED,
      "explicit-state BFS over add histories of the real estimator, exact-rational reference oracle on every transition")

ALL = [f"C{i:02d}" for i in range(1, 21)]

def main():
    checks = []
    for pid in ALL:
        if pid not in CLAIMED:
            continue
        ref, text, note, tech = CLAIMED[pid]
        checks.append({
            "property_id": pid,
            "quick_cmd": f"./check {pid} quick",
            "thorough_cmd": f"./check {pid} thorough",
            "evidence_file": f"/verif/evidence/{pid}.json",
            "replay_cmd_template": f"./check {pid} --replay {{path}}",
            "engine": "avgmc",
            "level_claimed": {"category": "model_checking", "text": text, "design_ref": ref},
            "level_note": note,
            "technique": tech,
        })
    na = [{"property_id": p, "reason": "check not built yet at this commit (work in progress; see DESIGN.md §6 for the planned bounded exhaustive check)"}
          for p in ALL if p not in CLAIMED]
    man = {
        "version": 1,
        "setup_cmd": "./check --setup",
        "hooks": {
            "guard": "vks_average_verif",
            "enable": "none needed: all state is observed through the public API (Debug, serde, accessors); the guard name is reserved and unused",
            "baseline_off_cmd": "cd /repo && cargo test --workspace --no-fail-fast --offline",
            "source_commits": [],
            "add_only": True,
        },
        "engines": [{
            "name": "avgmc",
            "path": "/verif/mc",
            "serves_properties": [c["property_id"] for c in checks],
            "kind_free_text": "own explicit-state explorer (level-synchronous BFS, full-key deduplication, shortest counterexample paths) that executes the real `average` code on every transition, with exact-rational / from-the-paper reference oracles; stateright used as an independent cross-check enumerator",
        }],
        "checks": checks,
        "not_applicable": na,
        "notes": "Every check rebuilds the engine against /repo's current working tree (cargo path dependency). Exit 0 held / 1 VIOLATION / 2 ENGINE-ERROR (machinery fault, never a verdict). Known findings: /verif/known_findings.txt.",
    }
    if not na:
        del man["not_applicable"]
    with open(os.path.join(HERE, "MANIFEST.json"), "w") as f:
        json.dump(man, f, indent=1)
        f.write("\n")
    try:
        import jsonschema
        jsonschema.validate(man, json.load(open("/root/.vp/MANIFEST.schema.json")))
        print("MANIFEST.json valid;", len(checks), "checks,", len(na), "not applicable")
    except ImportError:
        print("MANIFEST.json written (jsonschema not available to validate)")

if __name__ == "__main__":
    main()
