#!/usr/bin/env python3
"""Cross-check of the engine's exact oracle (mc/src/exact.rs) against Python's fractions.

usage: avgmc --selftest | python3 oracle_selftest.py
Every dumped multiset's mean, central moments m_p and absolute central moments A_p are
re-derived with fractions.Fraction and must be EQUAL as rationals; the engine's f64 renderings
must be within 2^-51 relative.  Exit 0 on success, 1 on any mismatch (an engine fault).
"""
import json, struct, sys
from fractions import Fraction

def f64(hexbits):
    return struct.unpack(">d", bytes.fromhex(hexbits))[0]

def rat(d):
    num = int(d["num"], 16)
    den = int(d["den"], 16)
    e = d["exp"]
    v = Fraction(num, den)
    return v * (Fraction(2) ** e)

TINY = Fraction(1, 2 ** 1022)
def close(approx, exact):
    if exact == 0:
        return approx == 0.0
    if abs(exact) < TINY:
        # the f64 rendering is subnormal (or underflows): absolute accuracy of two subnormal ulps
        return abs(Fraction(approx) - exact) <= Fraction(2, 2 ** 1074)
    return abs(Fraction(approx) - exact) <= abs(exact) * Fraction(1, 2 ** 51)

bad = 0
count = 0
for line in sys.stdin:
    line = line.strip()
    if not line:
        continue
    rec = json.loads(line)
    xs = [Fraction(f64(h)) for h in rec["xs"]]
    ms = rec["mult"]
    n = sum(ms)
    count += 1
    if n != rec["n"]:
        print("n mismatch", rec["xs"]); bad += 1; continue
    mean = sum(m * x for x, m in zip(xs, ms)) / n
    if rat(rec["mean"]) != mean:
        print("mean: RATIONAL mismatch", rec["xs"], ms); bad += 1
    elif not close(f64(rec["mean"]["f64"]), mean):
        print("mean: f64 rendering off", rec["xs"], ms); bad += 1
    for p, (dm, da) in enumerate(zip(rec["m"], rec["a"])):
        mp = sum(m * (x - mean) ** p for x, m in zip(xs, ms)) / n
        ap = sum(m * abs(x - mean) ** p for x, m in zip(xs, ms)) / n
        if rat(dm) != mp:
            print("m_%d: RATIONAL mismatch" % p, rec["xs"], ms); bad += 1
        elif not close(f64(dm["f64"]), mp):
            print("m_%d: f64 rendering off" % p, rec["xs"], ms); bad += 1
        if rat(da) != ap:
            print("A_%d: RATIONAL mismatch" % p, rec["xs"], ms); bad += 1
        elif not close(f64(da["f64"]), ap):
            print("A_%d: f64 rendering off" % p, rec["xs"], ms); bad += 1
    probe = abs(Fraction(f64(rec["xs"][0])) - mean)
    if not close(f64(rec["diff_probe"]), probe):
        print("abs_diff mismatch", rec["xs"], ms); bad += 1
print("oracle selftest: %d multisets, %d mismatches" % (count, bad))
sys.exit(1 if bad or count == 0 else 0)
