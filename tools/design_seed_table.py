import json,glob,re
s=open('/verif/DESIGN.md').read()
start=s.index("| change | file | caught by | signature |")
end=s.index("(The evidence of each run is in the `meta.json` files;")
rows="| change | file | caught by | signature |\n|---|---|---|---|\n"
for d in sorted(glob.glob('/verif/seeded/*')):
    k=d.split('/')[-1]
    m=json.load(open(d+'/meta.json'))
    patch=open(d+'/patch.diff').read()
    files=sorted(set(re.findall(r'^\+\+\+ b/(\S+)',patch,re.M)))
    res=m.get('checks_against_patched_repo',{}).get('results',{})
    prop=m['property']
    lines=res.get(prop,{}).get('lines',[])
    checks=sorted(set(re.findall(r'check=(\S+)',' '.join(lines))))
    sigs=sorted(set(re.findall(r'signature=(\S+)',' '.join(lines))))
    fl=', '.join(f.replace('src/','') for f in files)
    if m.get('outside_property_domain'):
        rows+=f"| {k} | {fl} | — (outside the property's domain) | — |\n"
    else:
        rows+=f"| {k} | {fl} | `{checks[0] if checks else ''}` | `{sigs[0] if sigs else ''}` |\n"
s=s[:start]+rows+"\n"+s[end:]
open('/verif/DESIGN.md','w').write(s)
