#!/bin/bash
cd /verif
for d in seeded/*/; do
  k=$(basename $d); prop=${k%%-*}; var=${k#*-}
  tag=""; v=$var
  case $var in r2*) tag="--tag r2"; v=${var#r2};; r3*) tag="--tag r3"; v=${var#r3};; r4*) tag="--tag r4"; v=${var#r4};; esac
  python3 seedtest.py $prop $v $tag --base /nonexistent --detect-only 2>&1 | grep -E "^\[.*exit" | cut -c1-120
done
./refresh_evidence.sh
