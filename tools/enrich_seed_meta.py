import json,glob,re,os
for d in sorted(glob.glob('/verif/seeded/*')):
    mp=d+'/meta.json'; m=json.load(open(mp))
    notes=open(d+'/notes.md').read() if os.path.exists(d+'/notes.md') else ''
    # pick the sentences that say what is needed to manifest
    lines=[l.strip(' -*#') for l in notes.split('\n')]
    pick=[l for l in lines if re.search(r'\b(need|needs|trigger|manifest|only when|only for|smallest)\b', l, re.I) and len(l)>25]
    txt=' '.join(pick[:3])[:700] if pick else notes.strip().split('\n\n')[0][:500]
    m['needs_to_manifest']=txt
    m['breaks_property']=m['property']
    json.dump(m,open(mp,'w'),indent=1)
print('ok')
