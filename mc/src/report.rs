//! Turning exploration results into the interface of the task: VIOLATION / KNOWN-FINDING
//! lines, replay artefacts, evidence files, exit codes.

use crate::explore::{Found, Stats};
use serde_json::{json, Value};
use std::collections::BTreeMap;
use std::path::{Path, PathBuf};

pub const VERIF: &str = "/verif";

/// where evidence/ and replays/ are written: /verif, unless AVGMC_OUT names another directory
/// (used only by the mutation sweep, whose parallel workers must not share output files)
pub fn out_root() -> PathBuf {
    PathBuf::from(std::env::var("AVGMC_OUT").unwrap_or_else(|_| VERIF.to_string()))
}

#[derive(Clone, Copy, Debug, PartialEq, Eq)]
pub enum Tier {
    Quick,
    Thorough,
}
impl Tier {
    pub fn name(&self) -> &'static str {
        match self {
            Tier::Quick => "quick",
            Tier::Thorough => "thorough",
        }
    }
}

/// signatures listed as known findings for the property being checked (set once by main);
/// explorations stop early on a violation only if its signature is NOT one of these
pub static KNOWN_SIGS: std::sync::OnceLock<std::collections::HashSet<String>> = std::sync::OnceLock::new();
pub fn is_new_signature(sig: &str) -> bool {
    KNOWN_SIGS.get().map(|k| !k.contains(sig)).unwrap_or(true)
}

pub struct Known {
    /// (property, signature) -> description
    pub findings: BTreeMap<(String, String), String>,
}

pub fn load_known() -> Known {
    let mut findings = BTreeMap::new();
    let p = Path::new(VERIF).join("known_findings.txt");
    if let Ok(txt) = std::fs::read_to_string(&p) {
        for line in txt.lines() {
            let line = line.trim();
            if let Some(rest) = line.strip_prefix("finding:") {
                let rest = rest.trim();
                let mut prop = None;
                let mut sig = None;
                let mut desc = Vec::new();
                for tok in rest.split_whitespace() {
                    if let Some(v) = tok.strip_prefix("property=") {
                        if prop.is_none() {
                            prop = Some(v.to_string());
                            continue;
                        }
                    }
                    if let Some(v) = tok.strip_prefix("signature=") {
                        if sig.is_none() {
                            sig = Some(v.to_string());
                            continue;
                        }
                    }
                    desc.push(tok);
                }
                if let (Some(p), Some(s)) = (prop, sig) {
                    findings.insert((p, s), desc.join(" "));
                }
            }
            // `fixed:` lines suppress nothing and are not read.
        }
    }
    Known { findings }
}

/// long sample histories (constant streams of thousands of adds) are cut to their first steps
fn shorten_history(x: &Value) -> Value {
    let mut x = x.clone();
    if let Some(h) = x.get_mut("history").and_then(|h| h.as_array_mut()) {
        if h.len() > 24 {
            let n = h.len();
            h.truncate(20);
            h.push(json!({"elided_steps": n - 20}));
        }
    }
    x
}
/// per-level frontier sizes of very deep explorations: first 20 levels, then every 100th
fn shorten_list(v: &[u64]) -> Value {
    if v.len() <= 48 {
        return json!(v);
    }
    let mut out: Vec<Value> = v[..20].iter().map(|x| json!(x)).collect();
    out.push(json!(format!("... {} levels in all; every 100th from here:", v.len())));
    out.extend(v.iter().enumerate().skip(20).filter(|(i, _)| i % 100 == 0).map(|(_, x)| json!(x)));
    json!(out)
}

fn hash_hex(s: &str) -> String {
    // FNV-1a, only for file names
    let mut h: u64 = 0xcbf29ce484222325;
    for b in s.bytes() {
        h ^= b as u64;
        h = h.wrapping_mul(0x100000001b3);
    }
    format!("{:016x}", h)
}

fn sanitize(s: &str) -> String {
    s.chars().map(|c| if c.is_ascii_alphanumeric() || c == '-' || c == '_' || c == '.' { c } else { '_' }).collect()
}

pub struct PropReport {
    pub id: String,
    pub tier: Tier,
    pub seed: i64,
    pub rule: String,
    pub assumptions: Vec<String>,
    pub specs: Vec<Stats>,
    /// replay artefact "kind"-specific context per spec name
    pub extra: Value,
    /// additional traces validated against the implementation (e.g. real-rayon runs)
    pub extra_traces: u64,
    /// Some(label): this run is an additional configuration (e.g. the `std` float back end);
    /// its summary is merged into the existing evidence file instead of replacing it
    pub secondary: Option<String>,
}

impl PropReport {
    pub fn new(id: &str, tier: Tier, seed: i64) -> PropReport {
        PropReport { id: id.into(), tier, seed, rule: String::new(), assumptions: vec![], specs: vec![], extra: json!({}), extra_traces: 0, secondary: None }
    }

    /// Writes replays + evidence, prints the verdict lines, returns the exit code.
    pub fn finish(&self, wall_s: f64) -> i32 {
        let known = load_known();
        let mut new_violations = 0u64;
        let mut known_hits = 0u64;
        let dir = out_root().join("replays").join(&self.id);
        let _ = std::fs::create_dir_all(&dir);
        let mut all_found: Vec<(&Stats, &Found)> = Vec::new();
        for s in &self.specs {
            for f in &s.found {
                all_found.push((s, f));
            }
        }
        // one line per signature (first = shortest occurrence, specs are ordered simplest first)
        let mut by_sig: BTreeMap<String, (&Stats, &Found, u64)> = BTreeMap::new();
        for (s, f) in &all_found {
            let e = by_sig.entry(f.sig.clone()).or_insert((s, f, 0));
            e.2 += f.count;
        }
        for (sig, (s, f, count)) in &by_sig {
            let art = json!({
                "property": self.id,
                "tier": self.tier.name(),
                "check": s.spec,
                "signature": sig,
                "detail": f.detail,
                "occurrences": count,
                "path": f.path,
            });
            let fname = format!("{}-{}.json", sanitize(sig), &hash_hex(&format!("{}{}", s.spec, sig))[..8]);
            let path = dir.join(fname);
            let _ = std::fs::write(&path, serde_json::to_string_pretty(&art).unwrap());
            if let Some(desc) = known.findings.get(&(self.id.clone(), sig.clone())) {
                known_hits += 1;
                println!("KNOWN-FINDING: property={} {} [signature={} occurrences={} replay={}]", self.id, desc, sig, count, path.display());
            } else {
                new_violations += 1;
                println!("VIOLATION property={} replay={}", self.id, path.display());
                println!("  signature={} check={} occurrences={}", sig, s.spec, count);
                println!("  {}", f.detail);
            }
        }
        if let Some(label) = &self.secondary {
            self.merge_secondary(label, wall_s, new_violations);
        } else {
            self.write_evidence(wall_s, new_violations, known_hits);
        }
        let states: u64 = self.specs.iter().map(|s| s.states).sum();
        let transitions: u64 = self.specs.iter().map(|s| s.transitions).sum();
        println!(
            "property={} tier={} specs={} states={} transitions={} new_violations={} known_findings={} wall_s={:.1}",
            self.id,
            self.tier.name(),
            self.specs.len(),
            states,
            transitions,
            new_violations,
            known_hits,
            wall_s
        );
        if new_violations > 0 {
            1
        } else {
            0
        }
    }

    fn merge_secondary(&self, label: &str, wall_s: f64, violations: u64) {
        let p = out_root().join("evidence").join(format!("{}.json", self.id));
        let mut ev: Value = std::fs::read_to_string(&p).ok().and_then(|t| serde_json::from_str(&t).ok()).unwrap_or(json!({}));
        let states: u64 = self.specs.iter().map(|s| s.states).sum();
        let transitions: u64 = self.specs.iter().map(|s| s.transitions).sum();
        let summary = json!({
            "configuration": label,
            "states": states,
            "transitions": transitions,
            "specs": self.specs.len(),
            "exhaustive": self.specs.iter().all(|s| s.capped.is_none()),
            "violations": violations,
            "wall_s": (wall_s * 1000.0).round() / 1000.0,
            "worst_error_over_envelope": self.extra,
        });
        if let Some(cov) = ev.get_mut("coverage").and_then(|c| c.as_object_mut()) {
            cov.insert(format!("additional_configuration_{label}"), summary);
        }
        if let Some(v) = ev.get("violations").and_then(|v| v.as_u64()) {
            ev["violations"] = json!(v + violations);
        }
        if let Some(w) = ev.get("wall_s").and_then(|v| v.as_f64()) {
            ev["wall_s"] = json!(((w + wall_s) * 1000.0).round() / 1000.0);
        }
        let _ = std::fs::write(&p, serde_json::to_string_pretty(&ev).unwrap());
    }

    fn write_evidence(&self, wall_s: f64, violations: u64, known_findings: u64) {
        let states: u64 = self.specs.iter().map(|s| s.states).sum();
        let transitions: u64 = self.specs.iter().map(|s| s.transitions).sum();
        let maximal: u64 = self.specs.iter().map(|s| s.maximal).sum();
        let nontrivial: u64 = self.specs.iter().map(|s| s.nontrivial_states).sum();
        let exhaustive = self.specs.iter().all(|s| s.capped.is_none());
        let mut samples: Vec<Value> = Vec::new();
        for s in &self.specs {
            for x in s.samples.iter().take(2) {
                if samples.len() < 12 {
                    samples.push(shorten_history(x));
                }
            }
        }
        if samples.is_empty() {
            samples.push(json!({"note": "no history recorded"}));
        }
        let specs: Vec<Value> = self
            .specs
            .iter()
            .map(|s| {
                json!({
                    "spec": s.spec,
                    "states": s.states,
                    "transitions": s.transitions,
                    "maximal_histories": s.maximal,
                    "distinct_outcomes": s.outcomes,
                    "nontrivial_states": s.nontrivial_states,
                    "depth_requested": s.depth_requested,
                    "depth_completed": s.depth_completed,
                    "closed_fixpoint": s.closed,
                    "frontier_sizes": shorten_list(&s.frontier_sizes),
                    "cap_hit": s.capped,
                    "stateright_unique_states": s.stateright_states,
                    "wall_s": (s.wall_s * 1000.0).round() / 1000.0,
                    "violation_signatures": s.found.iter().map(|f| json!({"sig": f.sig, "count": f.count})).collect::<Vec<_>>(),
                })
            })
            .collect();
        let ev = json!({
            "property_id": self.id,
            "tier": self.tier.name(),
            "seed": self.seed,
            "level": "model_checking",
            "coverage": {
                "states": states.max(1),
                "transitions": transitions.max(1),
                "traces_validated_against_impl": maximal + self.extra_traces,
                "samples": samples,
                "exhaustive": exhaustive,
                "evaluations": transitions.max(1),
                "distinct_nontrivial": nontrivial,
                "rule": self.rule,
                "specs": specs,
                "extra": self.extra,
                "known_findings_reproduced": known_findings,
                "explanation": "every transition is a call into the real `average` code (no abstract model); traces_validated_against_impl counts the maximal histories of the bounded space, all executed on the implementation",
            },
            "assumptions": self.assumptions,
            "wall_s": (wall_s * 1000.0).round() / 1000.0,
            "violations": violations,
        });
        let dir = out_root().join("evidence");
        let _ = std::fs::create_dir_all(&dir);
        let p = dir.join(format!("{}.json", self.id));
        std::fs::write(&p, serde_json::to_string_pretty(&ev).unwrap()).expect("write evidence");
    }
}
