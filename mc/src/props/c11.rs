//! C11 — the empty estimator is an exact identity of merge and lengths add exactly.

use super::chunky_impls::{HistChunk, U};
use super::common::*;
use super::interval::Chunky;
use super::{common_assumptions, Plan};
use crate::explore::{Found, Stats, Violation};
use crate::report::Tier;
use crate::subjects::*;
use average::{Covariance, Kurtosis, Max, Mean, Min, Moments4, Skewness, Variance, WeightedMean, WeightedMeanWithError};
use rayon::prelude::*;
use serde_json::{json, Value};
use std::collections::{BTreeMap, HashSet};
use std::sync::Arc;

#[derive(Debug)]
enum Expr<I> {
    Fresh,
    Add(Arc<Expr<I>>, I),
    Merge(Arc<Expr<I>>, Arc<Expr<I>>),
}
fn expr_json<T: Chunky>(e: &Expr<T::Item>) -> Value {
    match e {
        Expr::Fresh => json!({"new": true}),
        Expr::Add(a, i) => json!({"add": [expr_json::<T>(a), T::item_json(i)]}),
        Expr::Merge(a, b) => json!({"merge": [expr_json::<T>(a), expr_json::<T>(b)]}),
    }
}
fn expr_eval<T: Chunky>(v: &Value) -> Result<T, String> {
    if v.get("new").is_some() {
        return Ok(T::fresh());
    }
    if let Some(a) = v.get("add").and_then(|a| a.as_array()) {
        let mut e = expr_eval::<T>(&a[0])?;
        e.add_item(T::item_parse(&a[1]).ok_or("bad item")?);
        return Ok(e);
    }
    if let Some(a) = v.get("merge").and_then(|a| a.as_array()) {
        let mut e = expr_eval::<T>(&a[0])?;
        let o = expr_eval::<T>(&a[1])?;
        e.merge_(&o);
        return Ok(e);
    }
    Err(format!("bad expression {v}"))
}

struct Node<T: Chunky> {
    st: T,
    expr: Arc<Expr<T::Item>>,
    n_obs: usize,
}

pub struct IdentityCheck<T: Chunky> {
    pub alpha_name: String,
    pub alpha: Vec<T::Item>,
    pub rounds: usize,
    pub max_obs: usize,
    pub pair_cap: usize,
    pub _t: std::marker::PhantomData<T>,
}

fn judge_identity<T: Chunky>(a: &T) -> Vec<Violation> {
    let mut out = judge_identity_with(a, &T::fresh(), "");
    out.extend(judge_identity_with(a, &T::dflt_(), ":default-constructed"));
    out
}

fn judge_identity_with<T: Chunky>(a: &T, empty: &T, tag: &str) -> Vec<Violation> {
    let mut out = Vec::new();
    let before = a.dbg();
    let oa = a.observe_();
    // a.merge(&fresh)
    let x = a.clone();
    let e0 = empty.clone();
    match guarded(move || {
        let mut x = x;
        x.merge_(&e0);
        x
    }) {
        Err(m) => out.push(Violation { sig: format!("{}.merge:empty-other:panic{tag}", T::NAME), detail: format!("merging a fresh estimator into {before} panicked: {m}") }),
        Ok(x) => {
            let ox = x.observe_();
            if !ox.bits_eq(&oa) {
                out.push(Violation {
                    sig: format!("{}.merge:empty-other:changes-statistics{tag}", T::NAME),
                    detail: format!("{}: merging a fresh empty estimator into {before} changed {}", T::NAME, oa.first_diff(&ox)),
                });
            }
        }
    }
    // fresh.merge(&a)
    let y = a.clone();
    let e0 = empty.clone();
    match guarded(move || {
        let mut e = e0;
        e.merge_(&y);
        (e, y)
    }) {
        Err(m) => out.push(Violation { sig: format!("{}.merge:empty-self:panic{tag}", T::NAME), detail: format!("merging {before} into a fresh estimator panicked: {m}") }),
        Ok((e, y)) => {
            let oe = e.observe_();
            if !oe.bits_eq(&oa) {
                out.push(Violation {
                    sig: format!("{}.merge:empty-self:differs-from-argument{tag}", T::NAME),
                    detail: format!("{}: merging {before} into a fresh empty estimator gives {}", T::NAME, oa.first_diff(&oe)),
                });
            }
            if y.dbg() != before {
                out.push(Violation { sig: format!("{}.merge:modifies-argument", T::NAME), detail: format!("argument was {before}, is {} after merge", y.dbg()) });
            }
        }
    }
    // is_empty <=> len == 0; clone is faithful
    if let (Some(Ok(l)), Some(Ok(e))) = (&oa.len, &oa.is_empty) {
        if *e != (*l == 0) {
            out.push(Violation { sig: format!("{}.is_empty:inconsistent-with-len", T::NAME), detail: format!("{before}: len {l}, is_empty {e}") });
        }
    }
    if a.clone().dbg() != before {
        out.push(Violation { sig: format!("{}.clone:differs", T::NAME), detail: format!("clone of {before} is {}", a.clone().dbg()) });
    }
    out
}

fn judge_pair<T: Chunky>(a: &T, b: &T) -> Vec<Violation> {
    let mut out = Vec::new();
    let (la, lb) = (a.observe_().len, b.observe_().len);
    let bb = b.dbg();
    let (x, y) = (a.clone(), b.clone());
    match guarded(move || {
        let mut x = x;
        x.merge_(&y);
        (x, y)
    }) {
        Err(m) => out.push(Violation { sig: format!("{}.merge:panic", T::NAME), detail: format!("{}.merge({bb}) panicked: {m}", a.dbg()) }),
        Ok((c, y)) => {
            if y.dbg() != bb {
                out.push(Violation { sig: format!("{}.merge:modifies-argument", T::NAME), detail: format!("argument was {bb}, is {} after merge", y.dbg()) });
            }
            let oc = c.observe_();
            if let (Some(Ok(la)), Some(Ok(lb))) = (la, lb) {
                if oc.len != Some(Ok(la + lb)) {
                    out.push(Violation {
                        sig: format!("{}.merge:len-not-additive", T::NAME),
                        detail: format!("{} (len {la}) merged with {bb} (len {lb}) reports len {:?}", a.dbg(), oc.len),
                    });
                }
                if let Some(Ok(e)) = oc.is_empty {
                    if e != (la + lb == 0) {
                        out.push(Violation { sig: format!("{}.is_empty:inconsistent-with-len", T::NAME), detail: format!("merged len {} but is_empty {e}", la + lb) });
                    }
                }
            }
        }
    }
    out
}

impl<T: Chunky> Check for IdentityCheck<T> {
    fn name(&self) -> String {
        format!("C11/identity/{}/{}", T::NAME, self.alpha_name)
    }
    fn run(&self) -> Stats {
        let t0 = std::time::Instant::now();
        let mut st = Stats { spec: self.name(), depth_requested: self.rounds, ..Default::default() };
        let mut pool: Vec<Node<T>> = vec![Node { st: T::fresh(), expr: Arc::new(Expr::Fresh), n_obs: 0 }];
        let mut seen: HashSet<String> = HashSet::new();
        seen.insert(pool[0].st.dbg());
        let mut found: BTreeMap<String, Found> = BTreeMap::new();
        let mut note = |found: &mut BTreeMap<String, Found>, v: Violation, path: Vec<Value>| {
            let e = found.entry(v.sig.clone()).or_insert(Found { sig: v.sig, detail: v.detail, path, count: 0 });
            e.count += 1;
        };
        st.frontier_sizes.push(1);
        for round in 0..self.rounds {
            let mut cands: Vec<Node<T>> = Vec::new();
            for a in &pool {
                if a.n_obs < self.max_obs {
                    for it in &self.alpha {
                        st.transitions += 1;
                        let mut s = a.st.clone();
                        let it2 = *it;
                        match guarded(move || {
                            s.add_item(it2);
                            s
                        }) {
                            Ok(s) => cands.push(Node { st: s, expr: Arc::new(Expr::Add(a.expr.clone(), *it)), n_obs: a.n_obs + 1 }),
                            Err(m) => note(&mut found, Violation { sig: format!("{}.add:panic", T::NAME), detail: m }, vec![json!({"a": expr_json::<T>(&Expr::Add(a.expr.clone(), *it))})]),
                        }
                    }
                }
                for b in &pool {
                    if a.n_obs + b.n_obs <= self.max_obs && (a.n_obs > 0 || b.n_obs > 0) {
                        st.transitions += 1;
                        let (mut s, o) = (a.st.clone(), b.st.clone());
                        if let Ok(s) = guarded(move || {
                            s.merge_(&o);
                            s
                        }) {
                            cands.push(Node { st: s, expr: Arc::new(Expr::Merge(a.expr.clone(), b.expr.clone())), n_obs: a.n_obs + b.n_obs });
                        }
                    }
                }
            }
            let before = pool.len();
            for c in cands {
                if seen.insert(c.st.dbg()) {
                    pool.push(c);
                }
            }
            st.frontier_sizes.push((pool.len() - before) as u64);
            st.depth_completed = round + 1;
            if pool.len() == before {
                st.closed = true;
                break;
            }
        }
        st.states = pool.len() as u64;
        // identity checks on every reachable state
        let res: Vec<Vec<Violation>> = pool.par_iter().map(|a| judge_identity(&a.st)).collect();
        st.transitions += 2 * pool.len() as u64;
        for (a, vs) in pool.iter().zip(res) {
            for v in vs {
                note(&mut found, v, vec![json!({"a": expr_json::<T>(&a.expr)})]);
            }
        }
        // pairs (all pairs up to the cap)
        let k = pool.len().min(self.pair_cap);
        if k < pool.len() {
            st.capped = Some(format!("pair checks limited to the first {k} of {} reachable states (BFS order)", pool.len()));
        }
        let idx: Vec<(usize, usize)> = (0..k).flat_map(|i| (0..k).map(move |j| (i, j))).collect();
        let res: Vec<(usize, usize, Vec<Violation>)> = idx.par_iter().map(|&(i, j)| (i, j, judge_pair(&pool[i].st, &pool[j].st))).filter(|r| !r.2.is_empty()).collect();
        st.transitions += (k * k) as u64;
        for (i, j, vs) in res {
            for v in vs {
                note(&mut found, v, vec![json!({"a": expr_json::<T>(&pool[i].expr)}), json!({"b": expr_json::<T>(&pool[j].expr)})]);
            }
        }
        st.maximal = pool.len() as u64 + (k * k) as u64;
        st.nontrivial_states = pool.iter().filter(|n| n.n_obs > 0).count() as u64;
        st.outcomes = pool.iter().map(|n| n.st.observe_().fingerprint()).collect::<HashSet<_>>().len() as u64;
        for i in [pool.len() / 2, pool.len() - 1] {
            st.samples.push(json!({"spec": self.name(), "history": [{"a": expr_json::<T>(&pool[i].expr)}]}));
        }
        st.found = found.into_values().collect();
        st.wall_s = t0.elapsed().as_secs_f64();
        st
    }
    fn replay(&self, path: &[Value]) -> Result<Vec<Violation>, String> {
        let a = path.first().and_then(|v| v.get("a")).ok_or("no a")?;
        let a: T = guarded(|| expr_eval::<T>(a)).map_err(|m| format!("panic building a: {m}"))??;
        if let Some(b) = path.get(1).and_then(|v| v.get("b")) {
            let b: T = guarded(|| expr_eval::<T>(b)).map_err(|m| format!("panic building b: {m}"))??;
            Ok(judge_pair(&a, &b))
        } else {
            Ok(judge_identity(&a))
        }
    }
}

fn uni<T: UniMerge + UniIngest>(checks: &mut Vec<Box<dyn Check>>, q: bool) {
    for a in ["tri", "off9"] {
        checks.push(Box::new(IdentityCheck::<U<T>> {
            alpha_name: a.into(),
            alpha: sub_alphabet(a, 3),
            rounds: if q { 4 } else { 6 },
            max_obs: if q { 5 } else { 6 },
            pair_cap: if q { 700 } else { 2500 },
            _t: Default::default(),
        }));
    }
}
fn pair<T: Chunky<Item = (f64, f64)>>(checks: &mut Vec<Box<dyn Check>>, q: bool, alpha: Vec<(f64, f64)>, name: &str) {
    checks.push(Box::new(IdentityCheck::<T> { alpha_name: name.into(), alpha, rounds: if q { 4 } else { 6 }, max_obs: if q { 5 } else { 6 }, pair_cap: if q { 700 } else { 2500 }, _t: Default::default() }));
}

pub fn plan(tier: Tier) -> Plan {
    let q = tier == Tier::Quick;
    let mut checks: Vec<Box<dyn Check>> = Vec::new();
    uni::<Mean>(&mut checks, q);
    uni::<Variance>(&mut checks, q);
    uni::<Skewness>(&mut checks, q);
    uni::<Kurtosis>(&mut checks, q);
    uni::<Moments4>(&mut checks, q);
    uni::<M6>(&mut checks, q);
    uni::<M10>(&mut checks, q);
    for a in ["ext"] {
        for (mn, _) in [(true, 0), (false, 0)] {
            let alpha = alphabet(a);
            if mn {
                checks.push(Box::new(IdentityCheck::<U<Min>> { alpha_name: a.into(), alpha, rounds: 3, max_obs: 4, pair_cap: 700, _t: Default::default() }));
            } else {
                checks.push(Box::new(IdentityCheck::<U<Max>> { alpha_name: a.into(), alpha, rounds: 3, max_obs: 4, pair_cap: 700, _t: Default::default() }));
            }
        }
    }
    let wpairs = vec![(-1., 0.), (0.1, 0.5), (3., 3.), (3., 1e-6)];
    pair::<WeightedMean>(&mut checks, q, wpairs.clone(), "w4");
    pair::<WeightedMeanWithError>(&mut checks, q, wpairs, "w4");
    pair::<Covariance>(&mut checks, q, vec![(1., 5.), (2., 4.1), (-3., 0.1)], "corr3");
    pair::<Covariance>(&mut checks, q, vec![(1e9 - 3., -1e6 + 0.5), (1e9 + 4., -1e6 - 2.), (1e9 + 13., -1e6)], "off3");
    checks.push(Box::new(IdentityCheck::<HistChunk<H2>> { alpha_name: "samples".into(), alpha: vec![-1., 0., 0.5, 1., 1.5, 2., f64::NAN], rounds: if q { 3 } else { 4 }, max_obs: if q { 4 } else { 5 }, pair_cap: 700, _t: Default::default() }));
    // odd numbers of bins (a remainder bin when bins are processed in pairs)
    checks.push(Box::new(IdentityCheck::<HistChunk<H1>> { alpha_name: "samples".into(), alpha: vec![-1., 0., 0.5, 1.], rounds: 3, max_obs: 4, pair_cap: 700, _t: Default::default() }));
    checks.push(Box::new(IdentityCheck::<HistChunk<H3>> { alpha_name: "samples".into(), alpha: vec![0., 0.5, 1.5, 2.5, 3.], rounds: 3, max_obs: 4, pair_cap: 700, _t: Default::default() }));
    checks.push(Box::new(IdentityCheck::<HistChunk<average::Histogram10>> { alpha_name: "samples".into(), alpha: vec![0., 0.5, 4.5, 9.5, 10.], rounds: 3, max_obs: 4, pair_cap: 700, _t: Default::default() }));
    Plan {
        rule: "for every Merge type: the set of states reachable by rounds of add(x) and merge(a, b) over all pairs of already reachable states (bounded by total observations), deduplicated by Debug string; for every reachable a: a.merge(new()) and new().merge(a) must leave every accessor bit-for-bit equal to a's (all NaNs equal), the argument's Debug string must be unchanged, is_empty <=> len == 0; for every pair (a, b) of reachable states up to the cap: merged len = len a + len b exactly; non-trivial = states holding at least one observation".into(),
        assumptions: common_assumptions(),
        checks,
    }
}
