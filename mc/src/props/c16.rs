//! C16 — empty, one-observation and constant samples follow the documented contract.

use super::chunky_impls::{QChunk, QP, U};
use super::common::*;
use super::interval::{ChunkAddSpec, Chunky, Judge};
use super::{common_assumptions, Plan};
use crate::envelope::{judge, Expect};
use crate::explore::Violation;
use crate::report::Tier;
use crate::subjects::*;
use average::{Covariance, Kurtosis, Max, Mean, Min, Moments4, Skewness, Variance, WeightedMean, WeightedMeanWithError};

fn values() -> Vec<f64> {
    vec![-2., -0.0, 0., 0.1, 1e-30, 1e30, -1e30, 1e9 + 7.]
}

fn headline(name: &str) -> Option<Stat> {
    match name {
        "Mean" => Some(Stat::Mean),
        "Variance" => Some(Stat::PopVar),
        "Skewness" => Some(Stat::Skewness),
        "Kurtosis" => Some(Stat::Kurtosis),
        "Min" => Some(Stat::Min),
        "Max" => Some(Stat::Max),
        n if n.starts_with("Quantile") => Some(Stat::Quantile),
        _ => None,
    }
}

/// the sentinel table for estimators fed single values
fn expect_uni(tname: &str, stat: Stat, n: u64, x: f64) -> Expect {
    let stat = if stat == Stat::Estimate { headline(tname).unwrap_or(Stat::Estimate) } else { stat };
    if n == 0 {
        return match stat {
            Stat::Central(0) => Expect::Exactly(1.0),
            Stat::Central(1) => Expect::Exactly(0.0),
            Stat::Standardized(0) => Expect::Exactly(0.0),
            Stat::Standardized(1) => Expect::Exactly(0.0),
            Stat::Standardized(2) => Expect::Exactly(1.0),
            Stat::Min => Expect::Exactly(f64::INFINITY),
            Stat::Max => Expect::Exactly(f64::NEG_INFINITY),
            Stat::P => Expect::NoPanic,
            _ => Expect::Nan,
        };
    }
    match stat {
        Stat::Mean | Stat::Min | Stat::Max | Stat::Quantile => Expect::Exactly(x),
        Stat::PopVar | Stat::VarOfMean | Stat::Error | Stat::Skewness | Stat::Kurtosis => Expect::Exactly(0.0),
        Stat::SampleVar => {
            if n < 2 {
                Expect::Nan
            } else {
                Expect::Exactly(0.0)
            }
        }
        Stat::Central(0) => Expect::Exactly(1.0),
        Stat::Central(_) => Expect::Exactly(0.0),
        Stat::Standardized(0) => Expect::Exactly(n as f64),
        Stat::Standardized(1) => Expect::Exactly(0.0),
        Stat::Standardized(2) => Expect::Exactly(1.0),
        Stat::Standardized(_) => Expect::PanicZeroVariance,
        Stat::SampleSkewness => {
            if n == 1 {
                Expect::Exactly(0.0)
            } else {
                Expect::NoPanic
            }
        }
        Stat::SampleExKurt => {
            if n < 4 {
                Expect::Nan
            } else {
                Expect::NoPanic
            }
        }
        _ => Expect::NoPanic,
    }
}

fn class(n: u64) -> &'static str {
    match n {
        0 => "empty",
        1 => "one-observation",
        _ => "constant-stream",
    }
}

fn run_table(tname: &str, n: u64, obs: &Obs, expect: &dyn Fn(Stat) -> Expect, what: String) -> Vec<Violation> {
    let mut out = Vec::new();
    match &obs.len {
        Some(Ok(l)) if *l == n => {}
        None => {}
        l => out.push(Violation { sig: format!("{tname}.len:wrong"), detail: format!("len() = {l:?} after {n} adds") }),
    }
    if let Some(e) = &obs.is_empty {
        if tname != "WeightedMean" && *e != Ok(n == 0) {
            out.push(Violation { sig: format!("{tname}.is_empty:wrong"), detail: format!("is_empty() = {e:?} after {n} adds") });
        }
    }
    for (stat, val) in &obs.vals {
        let exp = expect(*stat);
        let j = judge(&exp, val);
        if !j.ok {
            let kind = match val {
                Val::Panic(_) => "panic",
                _ => "wrong-value",
            };
            out.push(Violation {
                sig: format!("{tname}.{}:{}:{kind}", stat.name(), class(n)),
                detail: format!("{tname}::{} = {} but the contract says {} ({what}, n = {n})", stat.name(), val.show(), j.expected),
            });
        }
    }
    out
}

fn uni_judge<T: Chunky<Item = f64>>() -> Judge<T> {
    Box::new(|items: &[f64], obs: &Obs| {
        let n = items.len() as u64;
        let x = items.first().copied().unwrap_or(f64::NAN);
        run_table(T::NAME, n, obs, &|s| expect_uni(T::NAME, s, n, x), format!("constant stream of {x:?}"))
    })
}

fn weighted_judge<T: Chunky<Item = (f64, f64)>>() -> Judge<T> {
    Box::new(|items: &[(f64, f64)], obs: &Obs| {
        let n = items.len() as u64;
        let (x, w) = items.first().copied().unwrap_or((f64::NAN, f64::NAN));
        let wpos = n > 0 && w > 0.0;
        let expect = |s: Stat| -> Expect {
            match s {
                Stat::UnweightedMean => {
                    if n == 0 {
                        Expect::Nan
                    } else {
                        Expect::Exactly(x)
                    }
                }
                Stat::PopVar => {
                    if n == 0 {
                        Expect::Nan
                    } else {
                        Expect::Exactly(0.0)
                    }
                }
                Stat::SampleVar => {
                    if n < 2 {
                        Expect::Nan
                    } else {
                        Expect::Exactly(0.0)
                    }
                }
                Stat::WMean => {
                    if wpos {
                        Expect::Exactly(x)
                    } else {
                        Expect::Nan
                    }
                }
                Stat::SumW | Stat::SumWSq => {
                    if n == 0 || !wpos {
                        Expect::Exactly(0.0)
                    } else {
                        Expect::NoPanic
                    }
                }
                Stat::EffLen => {
                    if n == 0 {
                        Expect::Exactly(0.0)
                    } else if !wpos {
                        Expect::Nan
                    } else {
                        Expect::NoPanic
                    }
                }
                Stat::VarOfWMean | Stat::WError => {
                    if !wpos || n < 2 {
                        Expect::Nan
                    } else {
                        Expect::Exactly(0.0)
                    }
                }
                _ => Expect::NoPanic,
            }
        };
        run_table(T::NAME, n, obs, &expect, format!("constant stream of ({x:?}, {w:?})"))
    })
}

fn cov_judge() -> Judge<Covariance> {
    Box::new(|items: &[(f64, f64)], obs: &Obs| {
        let n = items.len() as u64;
        let (x, y) = items.first().copied().unwrap_or((f64::NAN, f64::NAN));
        let expect = |s: Stat| -> Expect {
            if n == 0 {
                return Expect::Nan;
            }
            match s {
                Stat::MeanX => Expect::Exactly(x),
                Stat::MeanY => Expect::Exactly(y),
                Stat::PopVarX | Stat::PopVarY | Stat::PopCov => Expect::Exactly(0.0),
                Stat::SampleVarX | Stat::SampleVarY | Stat::SampleCov => {
                    if n < 2 {
                        Expect::Nan
                    } else {
                        Expect::Exactly(0.0)
                    }
                }
                Stat::Pearson => {
                    if n < 2 {
                        Expect::Nan
                    } else {
                        Expect::NoPanic
                    }
                }
                _ => Expect::NoPanic,
            }
        };
        run_table("Covariance", n, obs, &expect, format!("constant stream of ({x:?}, {y:?})"))
    })
}

fn konst<T: Chunky>(item: T::Item, label: String, depth: usize, judge: Judge<T>) -> Box<dyn Check> {
    Box::new(Bfs::new(ChunkAddSpec::<T> { prop: "C16", alpha_name: label, alpha: vec![item], judge }, depth))
}

fn uni<T: Chunky<Item = f64>>(checks: &mut Vec<Box<dyn Check>>, depth: usize) {
    for x in values() {
        checks.push(konst::<T>(x, format!("const={x:?}"), depth, uni_judge::<T>()));
    }
}

pub fn plan(tier: Tier) -> Plan {
    let depth = if tier == Tier::Quick { 1000 } else { 10_000 };
    let mut checks: Vec<Box<dyn Check>> = Vec::new();
    uni::<U<Mean>>(&mut checks, depth);
    uni::<U<Variance>>(&mut checks, depth);
    uni::<U<Skewness>>(&mut checks, depth);
    uni::<U<Kurtosis>>(&mut checks, depth);
    uni::<U<Moments4>>(&mut checks, depth);
    uni::<U<M6>>(&mut checks, depth);
    uni::<U<M10>>(&mut checks, depth);
    uni::<U<Min>>(&mut checks, depth.min(100));
    uni::<U<Max>>(&mut checks, depth.min(100));
    uni::<QChunk>(&mut checks, depth);
    // p at the ends of [0, 1] and close to 1 (the default above is the median)
    uni::<QP<0>>(&mut checks, depth.min(1000));
    uni::<QP<3>>(&mut checks, depth.min(1000));
    for x in values() {
        for w in [0., 1e-6, 0.3, 1., 3., 7., 1e6] {
            checks.push(konst::<WeightedMean>((x, w), format!("const=({x:?},{w:?})"), depth.min(1000), weighted_judge::<WeightedMean>()));
            checks.push(konst::<WeightedMeanWithError>((x, w), format!("const=({x:?},{w:?})"), depth.min(1000), weighted_judge::<WeightedMeanWithError>()));
        }
        for y in [0., -3.5, 1e30] {
            checks.push(konst::<Covariance>((x, y), format!("const=({x:?},{y:?})"), depth.min(1000), cov_judge()));
        }
    }
    Plan {
        rule: "every public estimator type x every statistic accessor (each call guarded) x the empty estimator, one observation and constant add-only streams of x in {-2,-0.0,0,0.1,1e-30,1e30,-1e30,1e9+7} at EVERY length up to the bound (weighted types: weights 0, 1e-6, 1, 1e6 incl. all-zero-weight streams; Covariance: three y values), against the sentinel table of the statement; the only accepted panic is the documented zero-variance assertion of standardized_moment(p >= 3); the below-minimum-size sentinels on non-constant data are decided in C09/C10/C15".into(),
        assumptions: common_assumptions(),
        checks,
    }
}
