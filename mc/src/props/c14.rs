//! C14 — Min and Max return the exact extreme of everything seen, in any order.
//! The state space over the `ext` alphabet is finite, so the BFS runs to its fixpoint.

use super::common::*;
use super::hist06::all_lists;
use super::{common_assumptions, Plan};
use crate::explore::{Spec, Violation};
use crate::report::Tier;
use crate::subjects::*;
use average::{Max, Min};
use serde_json::{json, Value};
use std::marker::PhantomData;

pub trait Extreme: UniMerge + UniIngest {
    const IS_MIN: bool;
    fn from_value_(v: f64) -> Self;
    fn value(&self) -> f64;
}
impl Extreme for Min {
    const IS_MIN: bool = true;
    fn from_value_(v: f64) -> Self {
        Min::from_value(v)
    }
    fn value(&self) -> f64 {
        self.min()
    }
}
impl Extreme for Max {
    const IS_MIN: bool = false;
    fn from_value_(v: f64) -> Self {
        Max::from_value(v)
    }
    fn value(&self) -> f64 {
        self.max()
    }
}

fn ghost_fold<T: Extreme>(g: f64, x: f64) -> f64 {
    if x.is_nan() {
        return g;
    }
    if T::IS_MIN {
        if x < g {
            x
        } else {
            g
        }
    } else if x > g {
        x
    } else {
        g
    }
}
fn neutral<T: Extreme>() -> f64 {
    if T::IS_MIN {
        f64::INFINITY
    } else {
        f64::NEG_INFINITY
    }
}

#[derive(Clone, Debug, PartialEq)]
pub enum XOp {
    Add(f64),
    MergeValue(f64),
    MergeFresh,
    MergeCollected(Vec<f64>),
    MergeInto(Vec<f64>), // collect(word).merge(&self) replaces self
    Extend(Vec<f64>, bool),
}

#[derive(Clone)]
pub struct XState<T: Extreme> {
    e: Result<T, String>,
    ghost: f64,
}

pub struct XSpec<T: Extreme> {
    words: Vec<Vec<f64>>,
    _t: PhantomData<T>,
}

impl<T: Extreme> Spec for XSpec<T> {
    type State = XState<T>;
    type Op = XOp;
    fn name(&self) -> String {
        format!("C14/extreme/{}", T::NAME)
    }
    fn init(&self) -> Vec<XState<T>> {
        let mut v = vec![XState { e: Ok(T::fresh()), ghost: neutral::<T>() }, XState { e: Ok(T::dflt()), ghost: neutral::<T>() }];
        for x in alphabet("ext") {
            if !x.is_nan() {
                v.push(XState { e: guarded(|| T::from_value_(x)), ghost: x });
            }
        }
        for w in &self.words {
            let g = w.iter().fold(neutral::<T>(), |g, x| ghost_fold::<T>(g, *x));
            v.push(XState { e: guarded(|| T::collect_vals(w)), ghost: g });
            v.push(XState { e: guarded(|| T::collect_refs(w)), ghost: g });
            // the same through iterators that report no useful size_hint
            v.push(XState { e: guarded(|| T::collect_vals_opaque(w)), ghost: g });
            v.push(XState { e: guarded(|| T::collect_refs_opaque(w)), ghost: g });
        }
        v
    }
    fn check_init(&self, s: &XState<T>) -> Vec<Violation> {
        self.judge(s, "init")
    }
    fn ops(&self, s: &XState<T>) -> Vec<XOp> {
        if s.e.is_err() {
            return vec![];
        }
        let mut v = Vec::new();
        for x in alphabet("ext") {
            v.push(XOp::Add(x));
            if !x.is_nan() {
                v.push(XOp::MergeValue(x));
            }
        }
        v.push(XOp::MergeFresh);
        for w in &self.words {
            v.push(XOp::MergeCollected(w.clone()));
            v.push(XOp::MergeInto(w.clone()));
            v.push(XOp::Extend(w.clone(), false));
            v.push(XOp::Extend(w.clone(), true));
        }
        v
    }
    fn step(&self, s: &XState<T>, op: &XOp) -> XState<T> {
        let mut e = s.e.clone().unwrap();
        let mut ghost = s.ghost;
        let fold = |g: f64, w: &[f64]| w.iter().fold(g, |g, x| ghost_fold::<T>(g, *x));
        let op2 = op.clone();
        let r = guarded(move || {
            match &op2 {
                XOp::Add(x) => e.add1(*x),
                XOp::MergeValue(x) => e.merge_(&T::from_value_(*x)),
                XOp::MergeFresh => e.merge_(&T::fresh()),
                XOp::MergeCollected(w) => e.merge_(&T::collect_vals(w)),
                XOp::MergeInto(w) => {
                    let mut o = T::collect_refs(w);
                    o.merge_(&e);
                    e = o;
                }
                XOp::Extend(w, by_ref) => {
                    let done = if *by_ref { e.extend_refs(w) } else { e.extend_vals(w) };
                    if !done {
                        // no Extend impl for this type: the documented equivalent is an add loop
                        for x in w {
                            e.add1(*x);
                        }
                    }
                }
            }
            e
        });
        match op {
            XOp::Add(x) | XOp::MergeValue(x) => ghost = ghost_fold::<T>(ghost, *x),
            XOp::MergeFresh => {}
            XOp::MergeCollected(w) | XOp::MergeInto(w) | XOp::Extend(w, _) => ghost = fold(ghost, w),
        }
        XState { e: r, ghost }
    }
    fn key(&self, s: &XState<T>) -> String {
        match &s.e {
            Ok(e) => format!("{}|{:?}", e.dbg(), s.ghost),
            Err(m) => format!("panic:{m}|{:?}", s.ghost),
        }
    }
    fn check(&self, _s: &XState<T>, op: &XOp, t: &XState<T>) -> Vec<Violation> {
        let what = match op {
            XOp::Add(x) if x.is_nan() => "add-nan",
            XOp::Add(_) => "add",
            XOp::MergeValue(_) | XOp::MergeFresh | XOp::MergeCollected(_) | XOp::MergeInto(_) => "merge",
            XOp::Extend(..) => "extend",
        };
        self.judge(t, what)
    }
    fn outcome(&self, s: &XState<T>) -> String {
        match &s.e {
            Ok(e) => format!("{:?}", e.value()),
            Err(_) => "panic".into(),
        }
    }
    fn show_op(&self, op: &XOp) -> Value {
        let w = |w: &Vec<f64>| Value::Array(w.iter().map(|x| fshow(*x)).collect());
        match op {
            XOp::Add(x) => json!({"add": fshow(*x)}),
            XOp::MergeValue(x) => json!({"merge_from_value": fshow(*x)}),
            XOp::MergeFresh => json!({"merge_fresh": true}),
            XOp::MergeCollected(x) => json!({"merge_collected": w(x)}),
            XOp::MergeInto(x) => json!({"merge_into_collected": w(x)}),
            XOp::Extend(x, r) => json!({"extend": w(x), "by_ref": r}),
        }
    }
}
impl<T: Extreme> XSpec<T> {
    fn judge(&self, t: &XState<T>, what: &str) -> Vec<Violation> {
        match &t.e {
            Err(m) => vec![Violation { sig: format!("{}.{what}:panic", T::NAME), detail: format!("{} {what} panicked: {m}", T::NAME) }],
            Ok(e) => {
                let obs = e.observe();
                let mut out = Vec::new();
                for (stat, v) in &obs.vals {
                    match v {
                        Val::F(g) if *g == t.ghost => {}
                        _ => out.push(Violation {
                            sig: format!("{}.{}:{what}:wrong-extreme", T::NAME, stat.name()),
                            detail: format!("{}::{} = {} but the extreme of the non-NaN observations absorbed is {:?}", T::NAME, stat.name(), v.show(), t.ghost),
                        }),
                    }
                }
                out
            }
        }
    }
}
impl<T: Extreme> ReplaySpec for XSpec<T> {
    fn parse_op(&self, v: &Value) -> Option<XOp> {
        let w = |v: &Value| -> Option<Vec<f64>> { v.as_array()?.iter().map(fparse).collect() };
        if let Some(x) = v.get("add") {
            return Some(XOp::Add(fparse(x)?));
        }
        if let Some(x) = v.get("merge_from_value") {
            return Some(XOp::MergeValue(fparse(x)?));
        }
        if v.get("merge_fresh").is_some() {
            return Some(XOp::MergeFresh);
        }
        if let Some(x) = v.get("merge_collected") {
            return Some(XOp::MergeCollected(w(x)?));
        }
        if let Some(x) = v.get("merge_into_collected") {
            return Some(XOp::MergeInto(w(x)?));
        }
        if let Some(x) = v.get("extend") {
            return Some(XOp::Extend(w(x)?, v.get("by_ref")?.as_bool()?));
        }
        None
    }
}

fn words() -> Vec<Vec<f64>> {
    let a = alphabet("ext");
    let mut w = vec![vec![]];
    w.extend(all_lists(&a, 1));
    w.extend(all_lists(&a, 2));
    w
}

/// collect through rayon's `FromParallelIterator` (by value and by reference) for every word
/// of length <= 3: the extreme is exact whatever the split, so the real pool may schedule as
/// it likes and the answer must still be the ghost extreme (C19 explores the split trees)
pub struct ParCollect<T: Extreme> {
    _t: PhantomData<T>,
}
impl<T> Check for ParCollect<T>
where
    T: Extreme + rayon::iter::FromParallelIterator<f64> + for<'a> rayon::iter::FromParallelIterator<&'a f64>,
{
    fn name(&self) -> String {
        format!("C14/parallel-collect/{}", T::NAME)
    }
    fn run(&self) -> crate::explore::Stats {
        let t0 = std::time::Instant::now();
        let a = alphabet("ext");
        let mut ws = vec![vec![]];
        for n in 1..=3 {
            ws.extend(all_lists(&a, n));
        }
        let mut st = crate::explore::Stats { spec: self.name(), depth_requested: 3, depth_completed: 3, ..Default::default() };
        let mut found: std::collections::BTreeMap<String, crate::explore::Found> = Default::default();
        for w in &ws {
            for v in self.replay(&[json!({"word": w.iter().map(|x| fshow(*x)).collect::<Vec<_>>()})]).unwrap_or_default() {
                let e = found.entry(v.sig.clone()).or_insert(crate::explore::Found { sig: v.sig, detail: v.detail, path: vec![json!({"word": w.iter().map(|x| fshow(*x)).collect::<Vec<_>>()})], count: 0 });
                e.count += 1;
            }
            st.states += 1;
            st.transitions += 2;
        }
        st.maximal = st.states;
        st.nontrivial_states = st.states - 1;
        st.outcomes = a.len() as u64;
        st.samples.push(json!({"spec": self.name(), "history": [{"par_collect": format!("{:?}", ws[ws.len() / 2])}]}));
        st.found = found.into_values().collect();
        st.wall_s = t0.elapsed().as_secs_f64();
        st
    }
    fn replay(&self, path: &[Value]) -> Result<Vec<Violation>, String> {
        use rayon::prelude::*;
        let w: Vec<f64> = path.first().and_then(|v| v.get("word")).and_then(|r| r.as_array()).ok_or("no word")?.iter().map(fparse).collect::<Option<Vec<_>>>().ok_or("bad word")?;
        let ghost = w.iter().fold(neutral::<T>(), |g, x| ghost_fold::<T>(g, *x));
        let mut out = Vec::new();
        let w1 = w.clone();
        let by_val = guarded(move || w1.into_par_iter().collect::<T>().value());
        let w2 = w.clone();
        let by_ref = guarded(move || w2.par_iter().collect::<T>().value());
        for (how, r) in [("by-value", by_val), ("by-reference", by_ref)] {
            match r {
                Ok(g) if g == ghost => {}
                other => out.push(Violation {
                    sig: format!("{}.parallel-collect:{how}:wrong-extreme", T::NAME),
                    detail: format!("{} collected in parallel ({how}) from {w:?} reports {other:?} but the extreme of the non-NaN observations is {ghost:?}", T::NAME),
                }),
            }
        }
        Ok(out)
    }
}

pub fn plan(_tier: Tier) -> Plan {
    let mut checks: Vec<Box<dyn Check>> = Vec::new();
    checks.push(Box::new(ParCollect::<Min> { _t: PhantomData }));
    checks.push(Box::new(ParCollect::<Max> { _t: PhantomData }));
    checks.push(Box::new(Bfs::new(XSpec::<Min> { words: words(), _t: PhantomData }, 64)));
    checks.push(Box::new(Bfs::new(XSpec::<Max> { words: words(), _t: PhantomData }, 64)));
    // the same two specs enumerated independently by stateright (counts and verdicts must agree)
    checks.push(cross(XSpec::<Min> { words: words(), _t: PhantomData }, 64));
    checks.push(cross(XSpec::<Max> { words: words(), _t: PhantomData }, 64));
    Plan {
        rule: "values {-inf,-1,-0.0,0.0,5e-324,1,+inf,NaN}; initial states new(), default(), from_value(v) for every non-NaN v, collect (by value and by reference) of every word of length <= 2; operations add(v), merge(from_value(v)), merge(new()), merge(collect(w)), collect(w).merge(self), extend(w) by value and by reference, and parallel collect (rayon, by value and by reference) of every word of length <= 3; state = (real object, ghost extreme of the non-NaN observations absorbed); the state space is finite and the BFS reaches its fixpoint, so the verdict covers histories of any length over this alphabet".into(),
        assumptions: common_assumptions(),
        checks,
    }
}
