//! C13 — histogram merge, +=, *=, reset and views are exact bin-wise operations.
//!
//! BFS over a pool of three histograms of one type: slots 0 and 1 share the edge vector A,
//! slot 2 has a second edge vector B (numerically different from A, or equal to it up to the
//! sign of a zero).  Every slot carries a ghost bin vector.

use super::common::*;
use super::{common_assumptions, Plan};
use crate::explore::{Spec, Violation};
use crate::refmodels::hist::ref_find;
use crate::report::Tier;
use crate::subjects::*;
use serde_json::{json, Value};
use std::marker::PhantomData;

#[derive(Clone, Debug, PartialEq)]
pub enum HOp {
    Add(usize, f64),
    Merge(usize, usize),
    AddAssign(usize, usize),
    Mul(usize, u64),
    Reset(usize),
    CloneTo(usize, usize),
}

#[derive(Clone)]
pub struct Pool<H: Hist> {
    h: Vec<H>,
    edges: Vec<Vec<f64>>,
    ghost: Vec<Vec<u64>>,
    /// set when a step itself observed a violation that the state cannot show (panic expectations)
    fault: Option<(String, String)>,
}

pub struct PoolSpec<H: Hist> {
    pub variant: &'static str,
    pub budget: u64, // upper bound on any count (keeps the space finite and far from overflow)
    pub _h: PhantomData<H>,
}

fn edge_variant<H: Hist>(variant: &str) -> (Vec<f64>, Vec<f64>) {
    let n = H::LEN + 1;
    let base: Vec<f64> = (0..n).map(|i| i as f64).collect();
    match variant {
        // B differs from A by ONE ULP in one edge (an equality test with a tolerance lets it pass)
        "one-ulp-differs" => {
            let mut a = base.clone();
            a[n - 1] = 0.3 + (n - 1) as f64;
            let mut b = a.clone();
            b[n - 1] = crate::refmodels::hist::next_up(a[n - 1]);
            (a, b)
        }
        // B differs from A only in its last edge
        "finite/last-edge-differs" => {
            let mut b = base.clone();
            b[n - 1] += 0.5;
            (base, b)
        }
        // infinite outer edges; B differs in an interior edge (or the upper edge for LEN 1)
        "infinite-outer/differs" => {
            let mut a = base.clone();
            a[0] = f64::NEG_INFINITY;
            a[n - 1] = f64::INFINITY;
            let mut b = a.clone();
            if n > 2 {
                b[1] += 0.25;
            } else {
                b[n - 1] = 7.0;
            }
            (a, b)
        }
        // a zero-width bin (repeated edge); B equal to A: merges across slots succeed
        "zero-width/same" => {
            let mut a = base.clone();
            if n > 2 {
                a[1] = a[0];
            } else {
                a[1] = a[0];
            }
            (a.clone(), a)
        }
        // A has 0.0, B has -0.0 in the same place: numerically identical edges
        "signed-zero" => {
            let a = base.clone();
            let mut b = base.clone();
            b[0] = -0.0;
            (a, b)
        }
        _ => panic!("unknown variant"),
    }
}

fn samples_for(edges: &[f64]) -> Vec<f64> {
    // one representative per bin (lower edge if finite, else a point inside), one on the last
    // edge (out of range unless infinite), one below range
    let n = edges.len() - 1;
    let mut v = Vec::new();
    for i in 0..n {
        let (lo, hi) = (edges[i], edges[i + 1]);
        if lo == hi {
            v.push(lo); // sits on a repeated edge: must go to the next non-empty bin
        } else if lo.is_finite() && hi.is_finite() {
            v.push(lo / 2.0 + hi / 2.0);
        } else if lo.is_finite() {
            v.push(lo + 1.0);
        } else if hi.is_finite() {
            v.push(hi - 1.0);
        } else {
            v.push(0.0);
        }
    }
    v.push(edges[n]);
    v.push(f64::NAN);
    if n > 6 {
        // keep the branching factor small for long histograms
        let keep = [0usize, 1, n / 2, n - 1, n, n + 1];
        v = keep.iter().map(|&i| v[i]).collect();
    }
    let mut seen = std::collections::HashSet::new();
    v.retain(|x| seen.insert(if x.is_nan() { u64::MAX } else { x.to_bits() }));
    v
}

fn edges_equal(a: &[f64], b: &[f64]) -> bool {
    a.iter().zip(b.iter()).all(|(x, y)| x == y)
}

fn bits(v: &[f64]) -> Vec<u64> {
    v.iter().map(|x| x.to_bits()).collect()
}

impl<H: Hist> PoolSpec<H> {
    fn views(&self, h: &H, edges: &[f64], ghost: &[u64], out: &mut Vec<Violation>) {
        let n = H::LEN;
        let it = h.iter_();
        let it2 = h.into_iter_();
        let expect_it: Vec<((f64, f64), u64)> = (0..n).map(|i| ((edges[i], edges[i + 1]), ghost[i])).collect();
        let same = |a: &[((f64, f64), u64)], b: &[((f64, f64), u64)]| a.len() == b.len() && a.iter().zip(b).all(|(x, y)| x.0 .0.to_bits() == y.0 .0.to_bits() && x.0 .1.to_bits() == y.0 .1.to_bits() && x.1 == y.1);
        if !same(&it, &expect_it) || !same(&it2, &expect_it) {
            out.push(Violation { sig: "hist.iter:wrong-items".into(), detail: format!("{}: iter() yields {:?}, expected {:?}", H::NAME, it, expect_it) });
        }
        // Iterator contract: size_hint() bounds the number of items actually yielded (LEN for a
        // fresh iterator, 0 for an exhausted one)
        let [fresh, spent] = h.iter_size_hints_();
        if fresh.0 > n || fresh.1.map_or(false, |u| u < n) || spent.0 > 0 {
            out.push(Violation {
                sig: "hist.iter:size-hint-contradicts-items".into(),
                detail: format!("{}: iter().size_hint() = {:?} for an iterator that yields {n} items; after the last item it is {:?}", H::NAME, fresh, spent),
            });
        }
        let r = h.ranges_();
        if bits(&r) != bits(edges) {
            out.push(Violation { sig: "hist.edges:changed".into(), detail: format!("{}: ranges() = {:?}, expected {:?}", H::NAME, r, edges) });
        }
        if h.bins_() != ghost {
            out.push(Violation { sig: "hist.bins:wrong".into(), detail: format!("{}: bins() = {:?}, expected {:?}", H::NAME, h.bins_(), ghost) });
        }
        let feq = |a: f64, b: f64| (a.is_nan() && b.is_nan()) || a.to_bits() == b.to_bits() || a == b;
        let w = h.widths_();
        let c = h.centers_();
        let nb = h.normalized_();
        let vs = h.variances_();
        if w.len() != n || c.len() != n || nb.len() != n || vs.len() != n {
            out.push(Violation { sig: "hist.views:wrong-length".into(), detail: format!("{}: view lengths {} {} {} {}", H::NAME, w.len(), c.len(), nb.len(), vs.len()) });
            return;
        }
        let total: u64 = ghost.iter().sum();
        for i in 0..n {
            let (lo, hi) = (edges[i], edges[i + 1]);
            if !feq(w[i], hi - lo) {
                out.push(Violation { sig: "hist.widths:wrong".into(), detail: format!("{}: widths()[{i}] = {:?}, upper-lower = {:?}", H::NAME, w[i], hi - lo) });
            }
            let c1 = (lo + hi) / 2.0;
            let c2 = 0.5 * (lo + hi);
            let cok = feq(c[i], c1) || feq(c[i], c2) || (c[i] - c1).abs() <= f64::EPSILON * c1.abs();
            if !cok {
                out.push(Violation { sig: "hist.centers:wrong".into(), detail: format!("{}: centers()[{i}] = {:?}, (lower+upper)/2 = {:?}", H::NAME, c[i], c1) });
            }
            let nexp = ghost[i] as f64 / (hi - lo);
            if !feq(nb[i], nexp) {
                out.push(Violation { sig: "hist.normalized_bins:wrong".into(), detail: format!("{}: normalized_bins()[{i}] = {:?}, count/width = {:?}", H::NAME, nb[i], nexp) });
            }
            let vi = guarded(|| h.variance_(i));
            match vi {
                Err(m) => out.push(Violation { sig: "hist.variance:panic".into(), detail: format!("{}: variance({i}) panicked: {m}", H::NAME) }),
                Ok(vi) => {
                    if !feq(vi, vs[i]) {
                        out.push(Violation { sig: "hist.variance:disagrees-with-variances".into(), detail: format!("{}: variance({i}) = {:?}, variances()[{i}] = {:?} (bins {:?})", H::NAME, vi, vs[i], ghost) });
                    }
                    let cnt = ghost[i] as f64;
                    let vexp = cnt * (1.0 - cnt / total as f64); // NaN for an empty histogram (0/0)
                    let tol = 4.0 * f64::EPSILON * cnt.max(1.0);
                    if !((vexp.is_nan() && vi.is_nan()) || (vi - vexp).abs() <= tol) {
                        out.push(Violation { sig: "hist.variance:wrong".into(), detail: format!("{}: variance({i}) = {:?}, count(1-count/total) = {:?} (bins {:?})", H::NAME, vi, vexp, ghost) });
                    }
                }
            }
        }
    }
}

impl<H: Hist> Spec for PoolSpec<H> {
    type State = Pool<H>;
    type Op = HOp;
    fn name(&self) -> String {
        format!("C13/pool/{}/{}", H::NAME, self.variant)
    }
    fn init(&self) -> Vec<Pool<H>> {
        let (a, b) = edge_variant::<H>(self.variant);
        let mk = |e: &Vec<f64>| H::from_ranges_(e.clone()).expect("valid edges");
        vec![Pool { h: vec![mk(&a), mk(&a), mk(&b)], edges: vec![a.clone(), a.clone(), b.clone()], ghost: vec![vec![0; H::LEN]; 3], fault: None }]
    }
    fn check_init(&self, s: &Pool<H>) -> Vec<Violation> {
        let mut out = Vec::new();
        for i in 0..3 {
            self.views(&s.h[i], &s.edges[i], &s.ghost[i], &mut out);
        }
        out
    }
    fn ops(&self, s: &Pool<H>) -> Vec<HOp> {
        if s.fault.is_some() {
            return vec![];
        }
        let mut v = Vec::new();
        for i in 0..3 {
            let tot: u64 = s.ghost[i].iter().sum();
            if tot < self.budget {
                for x in samples_for(&s.edges[i]) {
                    v.push(HOp::Add(i, x));
                }
            }
            for j in 0..3 {
                let tj: u64 = s.ghost[j].iter().sum();
                if tot + tj <= self.budget {
                    v.push(HOp::Merge(i, j));
                    v.push(HOp::AddAssign(i, j));
                }
                if i != j {
                    v.push(HOp::CloneTo(i, j));
                }
            }
            for k in [0u64, 1, 3] {
                if tot * k <= self.budget {
                    v.push(HOp::Mul(i, k));
                }
            }
            v.push(HOp::Reset(i));
        }
        v
    }
    fn step(&self, s: &Pool<H>, op: &HOp) -> Pool<H> {
        let mut t = s.clone();
        match op {
            HOp::Add(i, x) => {
                let mut h = t.h[*i].clone();
                let x = *x;
                match guarded(move || {
                    let r = h.add_(x);
                    (r, h)
                }) {
                    Err(m) => t.fault = Some(("hist.add:panic".into(), format!("{}: add({x:?}) panicked: {m}", H::NAME))),
                    Ok((r, h)) => {
                        t.h[*i] = h;
                        let want = ref_find(&t.edges[*i], x);
                        if let Some(b) = want {
                            t.ghost[*i][b] += 1;
                        }
                        if r.is_ok() != want.is_some() {
                            t.fault = Some(("hist.add:wrong-result".into(), format!("{}: add({x:?}) = {r:?} on edges {:?}", H::NAME, t.edges[*i])));
                        }
                    }
                }
            }
            HOp::Merge(i, j) | HOp::AddAssign(i, j) => {
                let is_merge = matches!(op, HOp::Merge(..));
                let opname = if is_merge { "merge" } else { "add_assign" };
                let (mut a, b) = (t.h[*i].clone(), t.h[*j].clone());
                let (da, db) = (a.dbg(), b.dbg());
                let compatible = edges_equal(&t.edges[*i], &t.edges[*j]);
                // numerically equal but not bit-identical (0.0 against -0.0): "identical edges" can be
                // read either way, so both outcomes are accepted — the bin-wise sum, or a panic that
                // leaves both operands unchanged
                let ambiguous = compatible && bits(&t.edges[*i]) != bits(&t.edges[*j]);
                // `a` is borrowed by the closure, so its state after a panic remains observable
                let r = guarded(|| {
                    if is_merge {
                        a.merge_(&b)
                    } else {
                        a.add_assign_(&b)
                    }
                });
                if ambiguous {
                    // whichever reading the implementation takes, "merge and += agree with each
                    // other": the other operation on the same operands must make the same choice
                    let (mut a2, b2) = (t.h[*i].clone(), t.h[*j].clone());
                    let r2 = guarded(|| {
                        if is_merge {
                            a2.add_assign_(&b2)
                        } else {
                            a2.merge_(&b2)
                        }
                    });
                    if r.is_ok() != r2.is_ok() {
                        t.fault = Some((
                            "hist.merge-vs-add_assign:disagree-on-signed-zero-edges".into(),
                            format!("{}: on edges that differ only in the sign of a zero ({:?} / {:?}) {opname} {} but the other operation {}", H::NAME, t.edges[*i], t.edges[*j], if r.is_ok() { "succeeds" } else { "panics" }, if r2.is_ok() { "succeeds" } else { "panics" }),
                        ));
                        return t;
                    }
                }
                match (compatible, r) {
                    (true, Ok(())) => {
                        let gj = t.ghost[*j].clone();
                        for (x, y) in t.ghost[*i].iter_mut().zip(gj.iter()) {
                            *x += *y;
                        }
                        t.h[*i] = a;
                        if b.dbg() != db {
                            t.fault = Some((format!("hist.{opname}:modifies-argument"), format!("{}: argument was {db}, is {}", H::NAME, b.dbg())));
                        }
                    }
                    (true, Err(_)) if ambiguous => {
                        if a.dbg() != da || b.dbg() != db {
                            t.fault = Some((format!("hist.{opname}:mutates-before-panic"), format!("{}: after the panic operands are {} / {}, were {da} / {db}", H::NAME, a.dbg(), b.dbg())));
                        }
                        t.h[*i] = a;
                    }
                    (true, Err(m)) => t.fault = Some((format!("hist.{opname}:panics-on-identical-edges"), format!("{}: {da} {opname} {db} panicked: {m}", H::NAME))),
                    (false, Ok(())) => t.fault = Some((format!("hist.{opname}:accepts-different-edges"), format!("{}: {da} {opname} {db} did not panic", H::NAME))),
                    (false, Err(_)) => {
                        if a.dbg() != da || b.dbg() != db {
                            t.fault = Some((format!("hist.{opname}:mutates-before-panic"), format!("{}: after the panic operands are {} / {}, were {da} / {db}", H::NAME, a.dbg(), b.dbg())));
                        }
                        t.h[*i] = a;
                    }
                }
            }
            HOp::Mul(i, k) => {
                let mut h = t.h[*i].clone();
                let k = *k;
                match guarded(move || {
                    h.mul_assign_(k);
                    h
                }) {
                    Err(m) => t.fault = Some(("hist.mul_assign:panic".into(), format!("{}: *= {k} panicked: {m}", H::NAME))),
                    Ok(h) => {
                        t.h[*i] = h;
                        for x in t.ghost[*i].iter_mut() {
                            *x *= k;
                        }
                    }
                }
            }
            HOp::Reset(i) => {
                let mut h = t.h[*i].clone();
                match guarded(move || {
                    h.reset_();
                    h
                }) {
                    Err(m) => t.fault = Some(("hist.reset:panic".into(), format!("{}: reset panicked: {m}", H::NAME))),
                    Ok(h) => {
                        t.h[*i] = h;
                        for x in t.ghost[*i].iter_mut() {
                            *x = 0;
                        }
                    }
                }
            }
            HOp::CloneTo(i, j) => {
                t.h[*j] = t.h[*i].clone();
                t.edges[*j] = t.edges[*i].clone();
                t.ghost[*j] = t.ghost[*i].clone();
            }
        }
        t
    }
    fn key(&self, s: &Pool<H>) -> String {
        format!("{}|{}|{}|{:?}|{:?}", s.h[0].dbg(), s.h[1].dbg(), s.h[2].dbg(), s.ghost, s.fault)
    }
    fn check(&self, _s: &Pool<H>, op: &HOp, t: &Pool<H>) -> Vec<Violation> {
        let mut out = Vec::new();
        if let Some((sig, detail)) = &t.fault {
            out.push(Violation { sig: sig.clone(), detail: detail.clone() });
            return out;
        }
        let touched: Vec<usize> = match op {
            HOp::Add(i, _) | HOp::Mul(i, _) | HOp::Reset(i) => vec![*i],
            HOp::Merge(i, j) | HOp::AddAssign(i, j) | HOp::CloneTo(i, j) => vec![*i, *j],
        };
        for i in touched {
            let before = out.len();
            self.views(&t.h[i], &t.edges[i], &t.ghost[i], &mut out);
            let opname = match op {
                HOp::Add(..) => "add",
                HOp::Merge(..) => "merge",
                HOp::AddAssign(..) => "add_assign",
                HOp::Mul(..) => "mul_assign",
                HOp::Reset(..) => "reset",
                HOp::CloneTo(..) => "clone",
            };
            for v in out[before..].iter_mut() {
                if v.sig == "hist.bins:wrong" || v.sig == "hist.edges:changed" {
                    v.sig = format!("{}:after-{opname}", v.sig);
                }
            }
        }
        out
    }
    fn outcome(&self, s: &Pool<H>) -> String {
        format!("{:?}", s.h.iter().map(|h| h.bins_()).collect::<Vec<_>>())
    }
    fn show_op(&self, op: &HOp) -> Value {
        match op {
            HOp::Add(i, x) => json!({"add": [i, fshow(*x)]}),
            HOp::Merge(i, j) => json!({"merge": [i, j]}),
            HOp::AddAssign(i, j) => json!({"add_assign": [i, j]}),
            HOp::Mul(i, k) => json!({"mul_assign": [i, k]}),
            HOp::Reset(i) => json!({"reset": i}),
            HOp::CloneTo(i, j) => json!({"clone_to": [i, j]}),
        }
    }
}
impl<H: Hist> ReplaySpec for PoolSpec<H> {
    fn parse_op(&self, v: &Value) -> Option<HOp> {
        let two = |v: &Value| -> Option<(usize, usize)> {
            let a = v.as_array()?;
            Some((a[0].as_u64()? as usize, a[1].as_u64()? as usize))
        };
        if let Some(a) = v.get("add").and_then(|a| a.as_array()) {
            return Some(HOp::Add(a[0].as_u64()? as usize, fparse(&a[1])?));
        }
        if let Some(a) = v.get("merge") {
            let (i, j) = two(a)?;
            return Some(HOp::Merge(i, j));
        }
        if let Some(a) = v.get("add_assign") {
            let (i, j) = two(a)?;
            return Some(HOp::AddAssign(i, j));
        }
        if let Some(a) = v.get("mul_assign").and_then(|a| a.as_array()) {
            return Some(HOp::Mul(a[0].as_u64()? as usize, a[1].as_u64()?));
        }
        if let Some(a) = v.get("reset") {
            return Some(HOp::Reset(a.as_u64()? as usize));
        }
        if let Some(a) = v.get("clone_to") {
            let (i, j) = two(a)?;
            return Some(HOp::CloneTo(i, j));
        }
        None
    }
}

fn pool<H: Hist>(variant: &'static str, depth: usize, budget: u64) -> Box<dyn Check> {
    Box::new(Bfs::new(PoolSpec::<H> { variant, budget, _h: PhantomData }, depth))
}

pub fn plan(tier: Tier) -> Plan {
    let q = tier == Tier::Quick;
    let mut checks: Vec<Box<dyn Check>> = Vec::new();
    let variants = ["finite/last-edge-differs", "one-ulp-differs", "infinite-outer/differs", "zero-width/same", "signed-zero"];
    for v in variants {
        checks.push(pool::<H1>(v, if q { 5 } else { 7 }, 9));
        checks.push(pool::<H2>(v, if q { 4 } else { 6 }, 9));
        checks.push(pool::<H3>(v, if q { 3 } else { 5 }, 9));
        if !q {
            checks.push(pool::<H4>(v, 4, 9));
        }
        checks.push(pool::<average::Histogram10>(v, if q { 3 } else { 4 }, 9));
    }
    checks.push(pool::<H4>("finite/last-edge-differs", 3, 9));
    checks.push(pool::<H100>("finite/last-edge-differs", if q { 2 } else { 3 }, 9));
    checks.push(pool::<H100>("infinite-outer/differs", 2, 9));
    checks.push(cross(PoolSpec::<H1> { variant: "finite/last-edge-differs", budget: 9, _h: PhantomData }, 4));
    checks.push(cross(PoolSpec::<H2> { variant: "zero-width/same", budget: 9, _h: PhantomData }, 3));
    checks.push(cross(PoolSpec::<H2> { variant: "signed-zero", budget: 9, _h: PhantomData }, 3));
    #[cfg(feature = "nightly")]
    for v in variants {
        checks.push(pool::<K1>(v, 5, 9));
        checks.push(pool::<K2>(v, 4, 9));
        checks.push(pool::<K3>(v, 4, 9));
        checks.push(pool::<K10>(v, 3, 9));
    }
    Plan {
        rule: "BFS over pools of three histograms (slots 0, 1 on edge vector A; slot 2 on B, which differs from A numerically, or equals it, or differs only in the sign of a zero) with operations add(slot, sample class), merge, +=, *= k (k in {0,1,3}), reset, clone, counts bounded by a budget; ghost bin vectors per slot; on every transition: bins equal the ghost (bin-wise sum after merge/+=, both agreeing), edges untouched, merge/+= on numerically different edges panic with both operands unchanged, argument never modified, iter() yields exactly LEN ((lower,upper),count) items in edge order, widths/centers/normalized_bins equal the literal IEEE expressions, variance(i) == variances()[i] == count(1-count/total) within 4 ulp".into(),
        assumptions: common_assumptions(),
        checks,
    }
}
