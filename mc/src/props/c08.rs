//! C08 — weighted mean and its error equal the exact weighted statistics.

use super::common::*;
use super::interval::{ChunkAddSpec, Chunky, IntervalCheck, Judge};
use super::{common_assumptions, Plan};
use crate::envelope::*;

use crate::explore::Violation;
use crate::report::Tier;
use crate::subjects::*;
use average::{WeightedMean, WeightedMeanWithError};
use serde_json::json;
use std::sync::Arc;

pub fn pair_alphabet(name: &str) -> Vec<(f64, f64)> {
    let prod = |xs: &[f64], ws: &[f64]| -> Vec<(f64, f64)> {
        let mut v = Vec::new();
        for &x in xs {
            for &w in ws {
                v.push((x, w));
            }
        }
        v
    };
    match name {
        // full product: zero weight at every position, six orders of magnitude either side
        "tri-x-weights" => prod(&[-1., 0.1, 3.], &alphabet("weights")),
        "off9-x-w3" => prod(&[1e9 - 3., 1e9 + 4., 1e9 + 13.], &[0., 0.5, 3.]),
        "tail-x-w3" => prod(&[0., 1., -100.], &[0., 1e-6, 1e6]),
        // 8-pair sub-alphabets for the merge-tree exploration
        "m8a" => vec![(-1., 0.), (-1., 1.), (0.1, 0.), (0.1, 0.5), (3., 3.), (3., 1e-6), (0.1, 1e6), (3., 0.)],
        "m8b" => vec![(1e9 - 3., 0.), (1e9 - 3., 0.5), (1e9 + 4., 3.), (1e9 + 13., 0.), (1e9 + 13., 1.), (1e9 + 4., 1e-6), (1e9 + 7., 1e6), (1e9 + 7., 0.)],
        "m4" => vec![(-1., 0.), (0.1, 0.5), (3., 3.), (3., 0.)],
        _ => panic!("unknown pair alphabet {name}"),
    }
}

pub fn judge_weighted(tname: &'static str, with_error: bool, items: &[(f64, f64)], obs: &Obs, cache: &ExactCache, board: &RatioBoard) -> Vec<Violation> {
    let n = items.len() as u64;
    if n == 0 {
        return judge_weighted_core(tname, with_error, 0, None, obs, board, &|| format!("{items:?}"));
    }
    let rows: Vec<(Vec<f64>, u64)> = items.iter().map(|(x, w)| (vec![*x, *w], 1)).collect();
    let xs: Vec<f64> = items.iter().map(|(x, _)| *x).collect();
    let ex = cache.get(&ms_of(&xs));
    judge_weighted_core(tname, with_error, n, Some((&rows, &ex)), obs, board, &|| format!("{items:?}"))
}

/// the same oracle for a weighted multiset of pairs: ((x, w), multiplicity)
pub fn judge_weighted_mult(tname: &'static str, with_error: bool, rows: &[((f64, f64), u64)], obs: &Obs, board: &RatioBoard) -> Vec<Violation> {
    let n: u64 = rows.iter().map(|r| r.1).sum();
    let r2: Vec<(Vec<f64>, u64)> = rows.iter().map(|((x, w), m)| (vec![*x, *w], *m)).collect();
    let xs: Vec<(f64, u64)> = rows.iter().map(|((x, _), m)| (*x, *m)).collect();
    let ex = crate::exact::ExactStats::new_weighted(&xs, 2);
    judge_weighted_core(tname, with_error, n, Some((&r2, &ex)), obs, board, &|| format!("{rows:?} (pair, multiplicity)"))
}

fn judge_weighted_core(
    tname: &'static str,
    with_error: bool,
    n: u64,
    data: Option<(&Vec<(Vec<f64>, u64)>, &crate::exact::ExactStats)>,
    obs: &Obs,
    board: &RatioBoard,
    show: &dyn Fn() -> String,
) -> Vec<Violation> {
    use crate::exact::exact_sum_products_w;
    let mut out = Vec::new();
    if with_error {
        match &obs.len {
            Some(Ok(l)) if *l == n => {}
            l => out.push(Violation { sig: format!("{tname}.len:wrong"), detail: format!("len() = {l:?}, expected {n}") }),
        }
        match &obs.is_empty {
            Some(Ok(e)) if *e == (n == 0) => {}
            e => out.push(Violation { sig: format!("{tname}.is_empty:wrong"), detail: format!("is_empty() = {e:?} with {n} pairs") }),
        }
    }
    let (rows, ex) = match data {
        None => return out,
        Some(d) => d,
    };
    let sw = exact_sum_products_w(rows, &[1]);
    let sw2 = exact_sum_products_w(rows, &[1, 1]);
    let swx = exact_sum_products_w(rows, &[0, 1]);
    let nf = n as f64;
    let m = rows.iter().fold(0.0f64, |a, r| a.max(r.0[0].abs()));
    let positive = sw.signum() > 0;
    let expect = |stat: Stat| -> Expect {
        match stat {
            Stat::UnweightedMean | Stat::PopVar | Stat::SampleVar => expect_moment(stat, ex),
            _ if !positive => Expect::Skip("total weight zero: C16"),
            Stat::WMean => Expect::WithinRat { exact: swx.div(&sw), tol: C_WMEAN * nf * U * m * SLACK },
            Stat::SumW => Expect::WithinRat { exact: sw.clone(), tol: 8.0 * nf * U * sw.to_f64() * SLACK },
            Stat::SumWSq => Expect::WithinRat { exact: sw2.clone(), tol: 8.0 * nf * U * sw2.to_f64() * SLACK },
            Stat::EffLen => {
                let e = sw.mul(&sw).div(&sw2);
                let tol = 8.0 * nf * U * e.to_f64() * SLACK;
                Expect::WithinRat { exact: e, tol }
            }
            Stat::VarOfWMean | Stat::WError => {
                if n < 2 {
                    return Expect::Nan;
                }
                if !(ex.sigma > 0.0) {
                    return Expect::Skip("zero spread: C16");
                }
                if ex.kappa > KAPPA_MAX {
                    return Expect::Skip("kappa > 1e12");
                }
                let e = nf * ex.kappa * U;
                let exact = ex.m[2].mul_u64(n).div_u64(n - 1).mul(&sw2).div(&sw.mul(&sw));
                let rel = (C_VAR * e + 16.0 * nf * U) * SLACK;
                if stat == Stat::VarOfWMean {
                    let tol = rel * exact.to_f64();
                    Expect::WithinRat { exact, tol }
                } else {
                    let r = exact.to_f64().sqrt();
                    Expect::WithinF { exact: r, tol: rel * r + 8.0 * U * r }
                }
            }
            _ => Expect::Skip("not judged"),
        }
    };
    for (stat, val) in &obs.vals {
        let exp = expect(*stat);
        let j = judge(&exp, val);
        if let Some(r) = j.ratio {
            board.note(*stat, r);
        }
        if !j.ok {
            let class = match (&exp, val) {
                (_, Val::Panic(_)) => "panic",
                (Expect::Nan, _) => "sentinel",
                (_, Val::F(g)) if g.is_nan() => "nan",
                _ => "envelope",
            };
            out.push(Violation {
                sig: format!("{tname}.{}:{class}", stat.name()),
                detail: format!("{tname}::{} = {} but expected {} for the pairs {}", stat.name(), val.show(), j.expected, show()),
            });
        }
    }
    out
}

fn mk_judge<T: Chunky<Item = (f64, f64)>>(tname: &'static str, with_error: bool, cache: Arc<ExactCache>, board: Arc<RatioBoard>) -> Judge<T> {
    Box::new(move |items, obs| judge_weighted(tname, with_error, items, obs, &cache, &board))
}

fn add<T: Chunky<Item = (f64, f64)>>(tname: &'static str, with_error: bool, alpha: &str, depth: usize) -> Box<dyn Check> {
    let cache = Arc::new(ExactCache::new(2));
    let board = Arc::new(RatioBoard::new());
    let b2 = board.clone();
    let spec = ChunkAddSpec::<T> { prop: "C08", alpha_name: alpha.into(), alpha: pair_alphabet(alpha), judge: mk_judge::<T>(tname, with_error, cache, board) };
    let mut b = Bfs::new(spec, depth);
    b.extra = Box::new(move || json!({"worst_error_over_envelope": b2.dump()}));
    Box::new(b)
}
fn trees<T: Chunky<Item = (f64, f64)>>(tname: &'static str, with_error: bool, alpha: &str, max_len: usize) -> Box<dyn Check> {
    let cache = Arc::new(ExactCache::new(2));
    let board = Arc::new(RatioBoard::new());
    let b2 = board.clone();
    Box::new(IntervalCheck::<T> {
        prop: "C08",
        alpha_name: alpha.into(),
        alpha: pair_alphabet(alpha),
        max_len,
        cap_per_word: word_cap(),
        judge: mk_judge::<T>(tname, with_error, cache, board),
        extra: Box::new(move || json!({"worst_error_over_envelope": b2.dump()})),
    })
}

pub fn plan(tier: Tier) -> Plan {
    let q = tier == Tier::Quick;
    let mut checks: Vec<Box<dyn Check>> = Vec::new();
    for (a, dq, dt) in [("tri-x-weights", 4, 5), ("off9-x-w3", 5, 6), ("tail-x-w3", 5, 6)] {
        let d = if q { dq } else { dt };
        checks.push(add::<WeightedMean>("WeightedMean", false, a, d));
        checks.push(add::<WeightedMeanWithError>("WeightedMeanWithError", true, a, d));
    }
    for (a, lq, lt) in [("m8a", 4, 5), ("m8b", 4, 5), ("m4", 6, 7)] {
        let l = if q { lq } else { lt };
        checks.push(trees::<WeightedMean>("WeightedMean", false, a, l));
        checks.push(trees::<WeightedMeanWithError>("WeightedMeanWithError", true, a, l));
    }
    {
        let (c1, b1) = (Arc::new(ExactCache::new(2)), Arc::new(RatioBoard::new()));
        checks.push(Box::new(super::c20::ExtendSplit::<WeightedMeanWithError> { prop: "C08", alpha_name: "m4".into(), alpha: pair_alphabet("m4"), max_len: if q { 5 } else { 6 }, judge: mk_judge::<WeightedMeanWithError>("WeightedMeanWithError", true, c1, b1) }));
        let (c2, b2) = (Arc::new(ExactCache::new(2)), Arc::new(RatioBoard::new()));
        checks.push(Box::new(super::c20::ExtendSplit::<WeightedMean> { prop: "C08", alpha_name: "m4".into(), alpha: pair_alphabet("m4"), max_len: if q { 5 } else { 6 }, judge: mk_judge::<WeightedMean>("WeightedMean", false, c2, b2) }));
    }
    for (name, with_error) in [("WeightedMeanWithError", true)] {
        let board = Arc::new(RatioBoard::new());
        checks.push(Box::new(super::longrun::DoublingPairs::<WeightedMeanWithError> {
            prop: "C08",
            alpha_name: "w3".into(),
            alpha: vec![(-1., 0.), (0.1, 0.5), (3., 1e6)],
            doublings: if q { 34 } else { 40 },
            judge: Box::new(move |rows, obs| judge_weighted_mult(name, with_error, rows, obs, &board)),
            _t: Default::default(),
        }));
    }
    {
        let board = Arc::new(RatioBoard::new());
        checks.push(Box::new(super::longrun::DoublingPairs::<WeightedMean> {
            prop: "C08",
            alpha_name: "w3".into(),
            alpha: vec![(-1., 0.), (0.1, 0.5), (3., 1e6)],
            doublings: if q { 34 } else { 40 },
            judge: Box::new(move |rows, obs| judge_weighted_mult("WeightedMean", false, rows, obs, &board)),
            _t: Default::default(),
        }));
    }
    Plan {
        rule: "built by extend: every word of length <= 5 (6) x every split into a prefix (add loop or collect) and a rest fed through extend by value / by reference, judged by the same value oracle; large n: chains built by merging an estimator with itself up to 34 (40) times and every cross merge of two chains, against exact weighted sums with multiplicities; AND add-only: every sequence of (x, w) pairs over product alphabets (x from 3 values, w from {0, 1e-6, 0.5, 1, 3, 1e6}: a zero weight at every position, first included) up to the depth bound; merge trees: the interval exploration of C02 over 4-/8-pair alphabets (zero-weight chunks included); every state judged against exact rational weighted sums when the exact total weight is positive; non-trivial = at least two pairs".into(),
        assumptions: common_assumptions(),
        checks,
    }
}
