//! C01 — streaming mean and variance equal the exact statistics (DESIGN.md §6, C01).

use super::common::*;
use super::{common_assumptions, Plan};
use crate::report::Tier;
use crate::subjects::Stat;
use average::{Mean, Variance};

fn filter(s: Stat) -> bool {
    matches!(s, Stat::Mean | Stat::PopVar | Stat::SampleVar | Stat::VarOfMean | Stat::Error)
}

pub fn plan(tier: Tier) -> Plan {
    let mut checks: Vec<Box<dyn Check>> = Vec::new();
    let alphas: &[(&str, usize, usize)] = &[
        // (alphabet, quick depth, thorough depth)
        ("two01", 8, 14),
        ("two13", 8, 14),
        ("two9", 8, 14),
        ("ap", 6, 9),
        ("small", 6, 8),
        ("dec", 6, 8),
        ("off9", 6, 9),
        ("off11", 6, 9),
        ("negoff", 7, 10),
        ("mixed", 6, 8),
        ("tail", 6, 9),
    ];
    for (a, q, t) in alphas {
        let d = if tier == Tier::Quick { *q } else { *t };
        checks.push(add_check::<Mean>("C01", a, d, filter, false));
        checks.push(add_check::<Variance>("C01", a, d, filter, false));
    }
    Plan {
        rule: "every sequence over each named alphabet up to the depth bound, one real add() per transition, every prefix judged against the exact statistics of its multiset; a state is non-trivial when its multiset is inside the envelope domain (n = 1, or sigma > 0 and kappa <= 1e12); states are distinct (estimator Debug string, multiset) pairs".into(),
        assumptions: common_assumptions(),
        checks,
    }
}
