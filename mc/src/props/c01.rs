//! C01 — streaming mean and variance equal the exact statistics (DESIGN.md §6, C01).

use super::common::*;
use super::{common_assumptions, Plan};
use crate::report::Tier;
use crate::subjects::Stat;
use average::{Mean, Variance};

fn filter(s: Stat) -> bool {
    matches!(s, Stat::Mean | Stat::PopVar | Stat::SampleVar | Stat::VarOfMean | Stat::Error)
}

pub fn plan(tier: Tier) -> Plan {
    let mut checks: Vec<Box<dyn Check>> = Vec::new();
    let alphas: &[(&str, usize, usize)] = &[
        // (alphabet, quick depth, thorough depth)
        ("two01", 12, 20),
        ("two13", 12, 20),
        ("two9", 12, 20),
        ("ap", 8, 12),
        ("small", 8, 11),
        ("dec", 8, 11),
        ("off9", 8, 10),
        ("off11", 8, 10),
        ("negoff", 9, 11),
        ("mixed", 8, 11),
        ("tail", 8, 12),
        ("tiny", 8, 11),
        ("large", 8, 11),
        ("tiny20", 7, 10),
        ("offbig", 7, 9),
        ("offsmall", 7, 9),
        ("large25", 7, 10),
    ];
    for (a, q, t) in alphas {
        let d = if tier == Tier::Quick { *q } else { *t };
        checks.push(add_check::<Mean>("C01", a, d, filter, false));
        checks.push(add_check::<Variance>("C01", a, d, filter, false));
    }
    let (n, w) = if tier == Tier::Quick { (70_000u64, 3usize) } else { (1_000_000, 3) };
    for a in ["small", "dec", "off9", "off11", "mixed", "tiny"] {
        let k = if tier == Tier::Quick { 3 } else { 4 };
        checks.push(super::longrun::lasso::<Mean>("C01", a, k, w, n, filter, false));
        checks.push(super::longrun::lasso::<Variance>("C01", a, k, w, n, filter, false));
    }
    Plan {
        rule: "long streams as a finite family: every word of length <= 3 over 3-/4-letter sub-alphabets repeated to n = 70 000 (1e6 thorough), judged at n = 1..16, around every power of two and at the end against the exact statistics of the weighted multiset; AND every sequence over each named alphabet up to the depth bound, one real add() per transition, every prefix judged against the exact statistics of its multiset; a state is non-trivial when its multiset is inside the envelope domain (n = 1, or sigma > 0 and kappa <= 1e12); states are distinct (estimator Debug string, multiset) pairs".into(),
        assumptions: common_assumptions(),
        checks,
    }
}
