//! C09 — Covariance reports exact means, variances, covariance and Pearson correlation.

use super::common::*;
use super::interval::{ChunkAddSpec, IntervalCheck, Judge};
use super::{common_assumptions, Plan};
use crate::envelope::*;
use crate::exact::Rat;
use crate::explore::Violation;
use crate::report::Tier;
use crate::subjects::*;
use average::Covariance;
use serde_json::json;
use std::sync::Arc;

pub fn cov_alphabet(name: &str) -> Vec<(f64, f64)> {
    let base: Vec<(f64, f64)> = match name.trim_end_matches("-swapped") {
        "corr" => vec![(1., 5.), (2., 4.1), (-3., 0.1), (0., 0.), (0.1, -2.)],
        "collinear" => vec![(-1., -2.), (0., 0.), (0.5, 1.), (3., 6.)],
        "anticollinear" => vec![(-1., 2.), (0., 1.), (0.5, 0.5), (3., -2.)],
        "off" => vec![(1e9 - 3., -1e6 + 0.5), (1e9 + 4., -1e6 - 2.), (1e9 + 7., -1e6 + 3.), (1e9 + 13., -1e6)],
        "mixedmag" => vec![(1e-30, 1e30), (-1e-30, 1.), (0., -1e30), (1., 0.)],
        // nearly but not exactly collinear: |r| within 1e-8 of 1 and different from 1
        "nearcollinear" => vec![(0., 0.), (1., 1.), (2., 2.), (3., 3. + 1. / 4096.), (-1., -1. - 1. / 8192.)],
        _ => panic!("unknown cov alphabet {name}"),
    };
    if name.ends_with("-swapped") {
        base.into_iter().map(|(x, y)| (y, x)).collect()
    } else {
        base
    }
}

pub fn judge_cov(items: &[(f64, f64)], obs: &Obs, cx: &ExactCache, board: &RatioBoard) -> Vec<Violation> {
    let n = items.len() as u64;
    if n == 0 {
        return judge_cov_core(0, None, obs, board, &|| format!("{items:?}"));
    }
    let xs: Vec<f64> = items.iter().map(|p| p.0).collect();
    let ys: Vec<f64> = items.iter().map(|p| p.1).collect();
    let ex = cx.get(&ms_of(&xs));
    let ey = cx.get(&ms_of(&ys));
    let rows: Vec<(Vec<f64>, u64)> = items.iter().map(|(x, y)| (vec![*x, *y], 1)).collect();
    judge_cov_core(n, Some((&rows, &ex, &ey)), obs, board, &|| format!("{items:?}"))
}

/// the same oracle for a weighted multiset of pairs: ((x, y), multiplicity)
pub fn judge_cov_mult(rows: &[((f64, f64), u64)], obs: &Obs, board: &RatioBoard) -> Vec<Violation> {
    let n: u64 = rows.iter().map(|r| r.1).sum();
    let r2: Vec<(Vec<f64>, u64)> = rows.iter().map(|((x, y), m)| (vec![*x, *y], *m)).collect();
    let ex = crate::exact::ExactStats::new_weighted(&rows.iter().map(|((x, _), m)| (*x, *m)).collect::<Vec<_>>(), 2);
    let ey = crate::exact::ExactStats::new_weighted(&rows.iter().map(|((_, y), m)| (*y, *m)).collect::<Vec<_>>(), 2);
    judge_cov_core(n, Some((&r2, &ex, &ey)), obs, board, &|| format!("{rows:?} (pair, multiplicity)"))
}

fn judge_cov_core(
    n: u64,
    data: Option<(&Vec<(Vec<f64>, u64)>, &crate::exact::ExactStats, &crate::exact::ExactStats)>,
    obs: &Obs,
    board: &RatioBoard,
    show: &dyn Fn() -> String,
) -> Vec<Violation> {
    use crate::exact::exact_sum_products_w;
    let mut out = Vec::new();
    match &obs.len {
        Some(Ok(l)) if *l == n => {}
        l => out.push(Violation { sig: "Covariance.len:wrong".into(), detail: format!("len() = {l:?}, expected {n}") }),
    }
    match &obs.is_empty {
        Some(Ok(e)) if *e == (n == 0) => {}
        e => out.push(Violation { sig: "Covariance.is_empty:wrong".into(), detail: format!("is_empty() = {e:?} with {n} pairs") }),
    }
    let (rows, ex, ey) = match data {
        None => return out,
        Some(d) => d,
    };
    let sxy_raw = exact_sum_products_w(rows, &[0, 1]);
    let sx = exact_sum_products_w(rows, &[0]);
    let sy = exact_sum_products_w(rows, &[1]);
    // Sxy = Σxy − Σx·Σy/n
    let sxy: Rat = sxy_raw.sub(&sx.mul(&sy).div_u64(n));
    let nf = n as f64;
    let both_spread = ex.sigma > 0.0 && ey.sigma > 0.0;
    let kappa = ex.kappa.max(ey.kappa);
    let expect = |stat: Stat| -> Expect {
        match stat {
            Stat::MeanX => expect_moment(Stat::Mean, ex),
            Stat::MeanY => expect_moment(Stat::Mean, ey),
            Stat::PopVarX => expect_moment(Stat::PopVar, ex),
            Stat::PopVarY => expect_moment(Stat::PopVar, ey),
            Stat::SampleVarX => expect_moment(Stat::SampleVar, ex),
            Stat::SampleVarY => expect_moment(Stat::SampleVar, ey),
            Stat::PopCov | Stat::SampleCov | Stat::Pearson => {
                if n == 1 {
                    return if stat == Stat::PopCov { Expect::Exactly(0.0) } else { Expect::Nan };
                }
                if !both_spread {
                    return Expect::Skip("zero spread in a coordinate");
                }
                if kappa > KAPPA_MAX {
                    return Expect::Skip("kappa > 1e12");
                }
                let e = nf * kappa * U;
                let scale = ex.sigma * ey.sigma;
                match stat {
                    Stat::PopCov => Expect::WithinRat { exact: sxy.div_u64(n), tol: (C_COV * e * scale).max(8.0 * U * sxy.to_f64().abs() / nf) * SLACK },
                    Stat::SampleCov => Expect::WithinRat { exact: sxy.div_u64(n - 1), tol: (C_COV * e * scale * nf / (nf - 1.0)).max(8.0 * U * sxy.to_f64().abs() / (nf - 1.0)) * SLACK },
                    _ => {
                        let r = sxy.to_f64() / (nf * scale);
                        Expect::WithinF { exact: r, tol: C_PEARSON * e * SLACK + 16.0 * U }
                    }
                }
            }
            _ => Expect::Skip("not judged"),
        }
    };
    for (stat, val) in &obs.vals {
        let exp = expect(*stat);
        let j = judge(&exp, val);
        if let Some(r) = j.ratio {
            board.note(*stat, r);
        }
        if !j.ok {
            let class = match (&exp, val) {
                (_, Val::Panic(_)) => "panic",
                (Expect::Nan, _) => "sentinel",
                (Expect::Exactly(_), _) => "exact",
                (_, Val::F(g)) if g.is_nan() => "nan",
                _ => "envelope",
            };
            out.push(Violation {
                sig: format!("Covariance.{}:{class}", stat.name()),
                detail: format!("Covariance::{} = {} but expected {} for the pairs {}", stat.name(), val.show(), j.expected, show()),
            });
        }
    }
    out
}

fn mk_judge(cache: Arc<ExactCache>, board: Arc<RatioBoard>) -> Judge<Covariance> {
    Box::new(move |items, obs| judge_cov(items, obs, &cache, &board))
}

fn add(alpha: &str, depth: usize) -> Box<dyn Check> {
    let cache = Arc::new(ExactCache::new(2));
    let board = Arc::new(RatioBoard::new());
    let b2 = board.clone();
    let spec = ChunkAddSpec::<Covariance> { prop: "C09", alpha_name: alpha.into(), alpha: cov_alphabet(alpha), judge: mk_judge(cache, board) };
    let mut b = Bfs::new(spec, depth);
    b.extra = Box::new(move || json!({"worst_error_over_envelope": b2.dump()}));
    Box::new(b)
}
fn trees(alpha: &str, max_len: usize) -> Box<dyn Check> {
    let cache = Arc::new(ExactCache::new(2));
    let board = Arc::new(RatioBoard::new());
    let b2 = board.clone();
    Box::new(IntervalCheck::<Covariance> {
        prop: "C09",
        alpha_name: alpha.into(),
        alpha: cov_alphabet(alpha),
        max_len,
        cap_per_word: word_cap(),
        judge: mk_judge(cache, board),
        extra: Box::new(move || json!({"worst_error_over_envelope": b2.dump()})),
    })
}

pub fn plan(tier: Tier) -> Plan {
    let q = tier == Tier::Quick;
    let mut checks: Vec<Box<dyn Check>> = Vec::new();
    for a in ["corr", "collinear", "anticollinear", "nearcollinear", "off", "mixedmag", "corr-swapped", "off-swapped", "mixedmag-swapped", "collinear-swapped", "nearcollinear-swapped"] {
        checks.push(add(a, if q { 6 } else { 8 }));
    }
    for a in ["corr", "collinear", "anticollinear", "off", "mixedmag", "corr-swapped", "off-swapped"] {
        checks.push(trees(a, if q { 5 } else { 6 }));
    }
    for a in ["corr", "off"] {
        let mut al = cov_alphabet(a);
        al.truncate(4);
        checks.push(Box::new(super::c20::ExtendSplit::<Covariance> { prop: "C09", alpha_name: a.into(), alpha: al, max_len: if q { 5 } else { 6 }, judge: mk_judge(Arc::new(ExactCache::new(2)), Arc::new(RatioBoard::new())) }));
    }
    for a in ["corr", "off"] {
        let board = Arc::new(RatioBoard::new());
        let mut al = cov_alphabet(a);
        al.truncate(3);
        checks.push(Box::new(super::longrun::DoublingPairs::<Covariance> {
            prop: "C09",
            alpha_name: a.into(),
            alpha: al,
            doublings: if q { 34 } else { 40 },
            judge: Box::new(move |rows, obs| judge_cov_mult(rows, obs, &board)),
            _t: Default::default(),
        }));
    }
    Plan {
        rule: "built by extend: every word of length <= 5 (6) x every split into a prefix (add loop or collect) and a rest fed through extend by value / by reference, judged by the same value oracle; large n: chains built by merging an estimator with itself up to 34 (40) times and every cross merge of two chains, against the exact statistics of the weighted multiset of pairs (n up to 2^41, beyond the stated 10^6); AND add-only: every sequence over each pair alphabet (partially correlated, exactly collinear, anti-collinear, independent offsets 1e9/-1e6, mixed magnitudes 1e±30) and its swapped twin up to the depth bound; merge trees: the interval exploration of C02 over the same alphabets; all ten accessors judged against exact rational means, Sxx, Syy, Sxy; covariance/pearson judged when both coordinates have non-zero spread and kappa <= 1e12; non-trivial = at least two pairs".into(),
        assumptions: common_assumptions(),
        checks,
    }
}
