//! Merge-tree exploration by intervals (DESIGN.md §6, "Merge-tree exploration by intervals").
//!
//! For a word w, R(w) is the set of estimator states that *some* composition of w into
//! contiguous, possibly empty chunks + *some* binary merge tree (either merge direction at
//! every node) can produce, computed bottom-up on the real code:
//!   R(ε) = {new()};  R(w) ∋ collect(w);  for every split w = u·v (u, v non-empty), every
//!   a ∈ R(u), b ∈ R(v): a.merge(&b) and b.merge(&a);  closed under merging with new().
//! States are deduplicated by Debug string per word (sound: an interval's futures depend on
//! (word, state) only) and R is shared by all words through their sub-words.  Every element
//! of every R(w) is judged against the exact statistics of w.

use super::common::*;
use crate::explore::{Found, Stats, Violation};
use crate::subjects::{guarded, Obs};
use rayon::prelude::*;
use serde_json::{json, Value};
use std::collections::{BTreeMap, HashMap, HashSet};
use std::sync::Arc;

pub trait Chunky: Clone + Send + Sync + 'static {
    type Item: Copy + Send + Sync + PartialEq + std::fmt::Debug;
    const NAME: &'static str;
    fn fresh() -> Self;
    fn collect(items: &[Self::Item]) -> Self;
    fn merge_(&mut self, o: &Self);
    fn add_item(&mut self, i: Self::Item);
    fn item_bits(i: &Self::Item) -> Vec<u64>;
    fn dbg(&self) -> String;
    fn observe_(&self) -> Obs;
    fn item_json(i: &Self::Item) -> Value;
    fn item_parse(v: &Value) -> Option<Self::Item>;
    fn has_merge() -> bool {
        true
    }
    /// the empty estimator built through `Default` (same as `fresh()` unless overridden)
    fn dflt_() -> Self {
        Self::fresh()
    }
}

#[derive(Debug)]
pub enum Prov {
    New,
    Collect(usize, usize),
    Merge(Arc<Prov>, Arc<Prov>), // left.merge(&right)
}
impl Prov {
    fn json(&self, off: usize) -> Value {
        match self {
            Prov::New => json!({"new": true}),
            Prov::Collect(i, j) => json!({"collect": [i + off, j + off]}),
            Prov::Merge(a, b) => json!({"merge": [a.json(off), b.json(off)]}),
        }
    }
    /// same tree with all indices shifted (sub-word provenance reused inside a longer word)
    fn shifted(self: &Arc<Prov>, off: usize) -> Arc<Prov> {
        if off == 0 {
            return self.clone();
        }
        match &**self {
            Prov::New => self.clone(),
            Prov::Collect(i, j) => Arc::new(Prov::Collect(i + off, j + off)),
            Prov::Merge(a, b) => Arc::new(Prov::Merge(a.shifted(off), b.shifted(off))),
        }
    }
}

#[derive(Clone)]
struct Node<T> {
    st: T,
    prov: Arc<Prov>,
}

pub type Judge<T> = Box<dyn Fn(&[<T as Chunky>::Item], &Obs) -> Vec<Violation> + Send + Sync>;

pub struct IntervalCheck<T: Chunky> {
    pub prop: &'static str,
    pub alpha_name: String,
    pub alpha: Vec<T::Item>,
    pub max_len: usize,
    pub cap_per_word: usize,
    pub judge: Judge<T>,
    pub extra: Box<dyn Fn() -> Value + Send + Sync>,
}

fn eval<T: Chunky>(p: &Value, word: &[T::Item]) -> Result<(T, usize, usize), String> {
    if p.get("new").is_some() {
        return Ok((T::fresh(), usize::MAX, usize::MAX));
    }
    if let Some(c) = p.get("collect").and_then(|c| c.as_array()) {
        let i = c[0].as_u64().ok_or("bad index")? as usize;
        let j = c[1].as_u64().ok_or("bad index")? as usize;
        if i > j || j > word.len() {
            return Err("collect range out of word".into());
        }
        return Ok((T::collect(&word[i..j]), i, j));
    }
    if let Some(m) = p.get("merge").and_then(|c| c.as_array()) {
        let (mut a, ai, aj) = eval::<T>(&m[0], word)?;
        let (b, bi, bj) = eval::<T>(&m[1], word)?;
        a.merge_(&b);
        let lo = [ai, bi].into_iter().filter(|x| *x != usize::MAX).min().unwrap_or(usize::MAX);
        let hi = [aj, bj].into_iter().filter(|x| *x != usize::MAX).max().unwrap_or(usize::MAX);
        return Ok((a, lo, hi));
    }
    Err(format!("bad provenance {p}"))
}

impl<T: Chunky> IntervalCheck<T> {
    fn words(&self, len: usize) -> Vec<Vec<usize>> {
        let k = self.alpha.len();
        let mut out = Vec::new();
        let mut idx = vec![0usize; len];
        loop {
            out.push(idx.clone());
            let mut p = len;
            loop {
                if p == 0 {
                    return out;
                }
                p -= 1;
                idx[p] += 1;
                if idx[p] < k {
                    break;
                }
                idx[p] = 0;
            }
        }
    }
}

struct WordResult<T> {
    nodes: Vec<Node<T>>,
    merges: u64,
    capped: bool,
    found: Vec<(Violation, Value)>,
    outcomes: HashSet<String>,
}

impl<T: Chunky> Check for IntervalCheck<T> {
    fn name(&self) -> String {
        format!("{}/merge-trees/{}/{}", self.prop, T::NAME, self.alpha_name)
    }
    fn run(&self) -> Stats {
        let t0 = std::time::Instant::now();
        let mut st = Stats { spec: self.name(), depth_requested: self.max_len, ..Default::default() };
        let mut r: HashMap<Vec<usize>, Arc<Vec<Node<T>>>> = HashMap::new();
        let mut found: BTreeMap<String, Found> = BTreeMap::new();
        let mut outcomes: HashSet<String> = HashSet::new();
        let mut capped_words = 0u64;
        for len in 0..=self.max_len {
            let words = self.words(len);
            let results: Vec<(Vec<usize>, WordResult<T>)> = words
                .par_iter()
                .map(|w| {
                    let items: Vec<T::Item> = w.iter().map(|&i| self.alpha[i]).collect();
                    let mut nodes: Vec<Node<T>> = Vec::new();
                    let mut seen: HashSet<String> = HashSet::new();
                    let mut merges = 0u64;
                    let mut capped = false;
                    let mut found = Vec::new();
                    let mut outcomes = HashSet::new();
                    let word_json = || Value::Array(items.iter().map(|i| T::item_json(i)).collect());
                    // per word, keep one artefact per violation signature (a broken merge can make
                    // every state of every word a violation; memory must stay bounded)
                    let mut sigs_seen: HashSet<String> = HashSet::new();
                    let mut push = |cand: Result<T, String>, prov: Arc<Prov>, nodes: &mut Vec<Node<T>>, found: &mut Vec<(Violation, Value)>| {
                        match cand {
                            Err(m) => if sigs_seen.insert(format!("{}.merge:panic", T::NAME)) { found.push((
                                Violation { sig: format!("{}.merge:panic", T::NAME), detail: format!("{}: merge/collect panicked: {m}", T::NAME) },
                                json!([{"word": word_json()}, {"tree": prov.json(0)}]),
                            )) },
                            Ok(s) => {
                                let k = s.dbg();
                                if seen.insert(k) {
                                    let obs = s.observe_();
                                    outcomes.insert(obs.fingerprint());
                                    for v in (self.judge)(&items, &obs) {
                                        if sigs_seen.insert(v.sig.clone()) {
                                            found.push((v, json!([{"word": word_json()}, {"tree": prov.json(0)}])));
                                        }
                                    }
                                    nodes.push(Node { st: s, prov });
                                }
                            }
                        }
                    };
                    if len == 0 {
                        push(guarded(|| T::fresh()), Arc::new(Prov::New), &mut nodes, &mut found);
                        // empty chunks merged with each other (any bracketing): closure of R(ε)
                        for _round in 0..3 {
                            let snapshot: Vec<Node<T>> = nodes.clone();
                            let before = nodes.len();
                            for a in snapshot.iter() {
                                for b in snapshot.iter() {
                                    merges += 1;
                                    let (x, y) = (a.st.clone(), b.st.clone());
                                    push(guarded(move || { let mut x = x; x.merge_(&y); x }), Arc::new(Prov::Merge(a.prov.clone(), b.prov.clone())), &mut nodes, &mut found);
                                }
                            }
                            if nodes.len() == before {
                                break;
                            }
                        }
                    } else {
                        push(guarded(|| T::collect(&items)), Arc::new(Prov::Collect(0, len)), &mut nodes, &mut found);
                        'outer: for m in 1..len {
                            let left = &r[&w[..m].to_vec()];
                            let right = &r[&w[m..].to_vec()];
                            for a in left.iter() {
                                for b in right.iter() {
                                    let pa = a.prov.clone();
                                    let pb = b.prov.shifted(m);
                                    merges += 2;
                                    let (x, y) = (a.st.clone(), b.st.clone());
                                    push(guarded(move || { let mut x = x; x.merge_(&y); x }), Arc::new(Prov::Merge(pa.clone(), pb.clone())), &mut nodes, &mut found);
                                    let (x, y) = (a.st.clone(), b.st.clone());
                                    push(guarded(move || { let mut y = y; y.merge_(&x); y }), Arc::new(Prov::Merge(pb, pa)), &mut nodes, &mut found);
                                    if nodes.len() >= self.cap_per_word {
                                        capped = true;
                                        break 'outer;
                                    }
                                }
                            }
                        }
                        // closure under merging with the empty estimator (empty chunks anywhere
                        // in the tree); two rounds suffice unless the identity law is broken
                        let empties = &r[&Vec::new()];
                        for _round in 0..2 {
                            if nodes.len() >= self.cap_per_word {
                                capped = true;
                                break;
                            }
                            let snapshot: Vec<Node<T>> = nodes.clone();
                            let before = nodes.len();
                            for a in snapshot.iter() {
                                for e in empties.iter() {
                                    merges += 2;
                                    let (x, y) = (a.st.clone(), e.st.clone());
                                    push(guarded(move || { let mut x = x; x.merge_(&y); x }), Arc::new(Prov::Merge(a.prov.clone(), e.prov.clone())), &mut nodes, &mut found);
                                    let (x, y) = (a.st.clone(), e.st.clone());
                                    push(guarded(move || { let mut y = y; y.merge_(&x); y }), Arc::new(Prov::Merge(e.prov.clone(), a.prov.clone())), &mut nodes, &mut found);
                                }
                            }
                            if nodes.len() == before {
                                break;
                            }
                        }
                    }
                    (w.clone(), WordResult { nodes, merges, capped, found, outcomes })
                })
                .collect();
            let mut level_states = 0u64;
            for (w, res) in results {
                level_states += res.nodes.len() as u64;
                st.transitions += res.merges + 1;
                if res.capped {
                    capped_words += 1;
                }
                for (v, path) in res.found {
                    let e = found.entry(v.sig.clone()).or_insert(Found { sig: v.sig, detail: v.detail, path: path.as_array().unwrap().clone(), count: 0 });
                    e.count += 1;
                }
                outcomes.extend(res.outcomes);
                if len == self.max_len {
                    st.maximal += res.nodes.len() as u64;
                    if st.samples.len() < 2 && res.nodes.len() > 3 {
                        let nd = &res.nodes[res.nodes.len() / 2];
                        let items: Vec<Value> = w.iter().map(|&i| T::item_json(&self.alpha[i])).collect();
                        st.samples.push(json!({"spec": self.name(), "history": [{"word": items}, {"tree": nd.prov.json(0)}], "states_for_this_word": res.nodes.len()}));
                    }
                }
                r.insert(w, Arc::new(res.nodes));
            }
            st.states += level_states;
            st.nontrivial_states += if len >= 2 { level_states } else { 0 };
            st.frontier_sizes.push(level_states);
            st.depth_completed = len;
            if found.keys().any(|s| crate::report::is_new_signature(s)) {
                st.capped = Some(format!("stopped after word length {len}: violations found (shortest counterexamples kept)"));
                break;
            }
        }
        if capped_words > 0 {
            st.capped = Some(format!("{} words hit the per-word cap of {} states", capped_words, self.cap_per_word));
        }
        st.closed = false;
        st.outcomes = outcomes.len() as u64;
        st.found = found.into_values().collect();
        st.wall_s = t0.elapsed().as_secs_f64();
        st
    }
    fn replay(&self, path: &[Value]) -> Result<Vec<Violation>, String> {
        let word: Vec<T::Item> = path
            .first()
            .and_then(|v| v.get("word"))
            .and_then(|w| w.as_array())
            .ok_or("no word")?
            .iter()
            .map(|v| T::item_parse(v))
            .collect::<Option<Vec<_>>>()
            .ok_or("bad item")?;
        let tree = path.get(1).and_then(|v| v.get("tree")).ok_or("no tree")?;
        let r = guarded(|| eval::<T>(tree, &word));
        match r {
            Err(m) => Ok(vec![Violation { sig: format!("{}.merge:panic", T::NAME), detail: format!("panicked: {m}") }]),
            Ok(Err(e)) => Err(e),
            Ok(Ok((s, lo, hi))) => {
                let slice: &[T::Item] = if lo == usize::MAX { &[] } else { &word[lo..hi] };
                Ok((self.judge)(slice, &s.observe_()))
            }
        }
    }
    fn extra(&self) -> Value {
        (self.extra)()
    }
}

// ---------------------------------------------------------------------------------------
// add-only BFS for any `Chunky` estimator (used for the pair estimators)

use crate::explore::Spec;

#[derive(Clone)]
pub struct CState<T: Chunky> {
    pub est: Result<T, String>,
    /// absorbed items, sorted by bit pattern (a canonical multiset)
    pub items: Vec<T::Item>,
}

pub struct ChunkAddSpec<T: Chunky> {
    pub prop: &'static str,
    pub alpha_name: String,
    pub alpha: Vec<T::Item>,
    pub judge: Judge<T>,
}

impl<T: Chunky> Spec for ChunkAddSpec<T> {
    type State = CState<T>;
    type Op = T::Item;
    fn name(&self) -> String {
        format!("{}/add/{}/{}", self.prop, T::NAME, self.alpha_name)
    }
    fn init(&self) -> Vec<CState<T>> {
        // new() and Default::default() (deduplicated when they are the same state)
        vec![CState { est: Ok(T::fresh()), items: vec![] }, CState { est: Ok(T::dflt_()), items: vec![] }]
    }
    fn check_init(&self, s: &CState<T>) -> Vec<Violation> {
        match &s.est {
            Ok(e) => (self.judge)(&[], &e.observe_()),
            Err(_) => vec![],
        }
    }
    fn ops(&self, s: &CState<T>) -> Vec<T::Item> {
        if s.est.is_err() {
            return vec![];
        }
        self.alpha.clone()
    }
    fn step(&self, s: &CState<T>, op: &T::Item) -> CState<T> {
        let mut e = s.est.clone().unwrap();
        let it = *op;
        let est = guarded(move || {
            e.add_item(it);
            e
        });
        let mut items = s.items.clone();
        let kb = T::item_bits(op);
        let pos = items.binary_search_by(|p| T::item_bits(p).cmp(&kb)).unwrap_or_else(|e| e);
        items.insert(pos, *op);
        CState { est, items }
    }
    fn key(&self, s: &CState<T>) -> String {
        // run-length encoded sorted multiset (constant streams of length 10^4 would otherwise
        // make every key O(n))
        let mut ms: Vec<(Vec<u64>, u32)> = Vec::new();
        for i in &s.items {
            let b = T::item_bits(i);
            match ms.last_mut() {
                Some((lb, c)) if *lb == b => *c += 1,
                _ => ms.push((b, 1)),
            }
        }
        match &s.est {
            Ok(e) => format!("{}|{:x?}", e.dbg(), ms),
            Err(m) => format!("panic:{m}|{:x?}", ms),
        }
    }
    fn check(&self, _s: &CState<T>, _op: &T::Item, t: &CState<T>) -> Vec<Violation> {
        match &t.est {
            Err(m) => vec![Violation { sig: format!("{}.add:panic", T::NAME), detail: format!("{}::add panicked: {m}", T::NAME) }],
            Ok(e) => (self.judge)(&t.items, &e.observe_()),
        }
    }
    fn outcome(&self, s: &CState<T>) -> String {
        match &s.est {
            Ok(e) => e.observe_().fingerprint(),
            Err(_) => "panic".into(),
        }
    }
    fn show_op(&self, op: &T::Item) -> Value {
        json!({"add": T::item_json(op)})
    }
    fn nontrivial(&self, s: &CState<T>) -> bool {
        s.items.len() >= 2
    }
}
impl<T: Chunky> ReplaySpec for ChunkAddSpec<T> {
    fn parse_op(&self, v: &Value) -> Option<T::Item> {
        T::item_parse(v.get("add")?)
    }
}
