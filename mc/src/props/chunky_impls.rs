//! `Chunky` implementations: the moment family (through `Uni`) and the pair estimators.

use super::common::{fparse, fshow};
use super::interval::Chunky;
use crate::subjects::*;
use average::{Covariance, Merge, WeightedMean, WeightedMeanWithError};
use serde_json::{json, Value};

#[derive(Clone)]
pub struct U<T>(pub T);

impl<T: UniMerge + UniIngest> Chunky for U<T> {
    type Item = f64;
    const NAME: &'static str = T::NAME;
    fn fresh() -> Self {
        U(T::fresh())
    }
    fn dflt_() -> Self {
        U(T::dflt())
    }
    fn collect(items: &[f64]) -> Self {
        U(T::collect_vals(items))
    }
    fn merge_(&mut self, o: &Self) {
        self.0.merge_(&o.0)
    }
    fn add_item(&mut self, i: f64) {
        self.0.add1(i)
    }
    fn item_bits(i: &f64) -> Vec<u64> {
        vec![i.to_bits()]
    }
    fn dbg(&self) -> String {
        self.0.dbg()
    }
    fn observe_(&self) -> Obs {
        self.0.observe()
    }
    fn item_json(i: &f64) -> Value {
        fshow(*i)
    }
    fn item_parse(v: &Value) -> Option<f64> {
        fparse(v)
    }
}

pub fn pair_json(i: &(f64, f64)) -> Value {
    json!([fshow(i.0), fshow(i.1)])
}
pub fn pair_parse(v: &Value) -> Option<(f64, f64)> {
    let a = v.as_array()?;
    Some((fparse(a.first()?)?, fparse(a.get(1)?)?))
}

macro_rules! impl_pair {
    ($t:ty, $name:expr, $obs:ident) => {
        impl Chunky for $t {
            type Item = (f64, f64);
            const NAME: &'static str = $name;
            fn fresh() -> Self {
                <$t>::new()
            }
            fn dflt_() -> Self {
                Default::default()
            }
            fn collect(items: &[(f64, f64)]) -> Self {
                items.iter().copied().collect()
            }
            fn merge_(&mut self, o: &Self) {
                Merge::merge(self, o)
            }
            fn add_item(&mut self, i: (f64, f64)) {
                self.add(i.0, i.1)
            }
            fn item_bits(i: &(f64, f64)) -> Vec<u64> {
                vec![i.0.to_bits(), i.1.to_bits()]
            }
            fn dbg(&self) -> String {
                format!("{:?}", self)
            }
            fn observe_(&self) -> Obs {
                $obs(self)
            }
            fn item_json(i: &(f64, f64)) -> Value {
                pair_json(i)
            }
            fn item_parse(v: &Value) -> Option<(f64, f64)> {
                pair_parse(v)
            }
        }
    };
}
impl_pair!(WeightedMean, "WeightedMean", observe_wm);
impl_pair!(WeightedMeanWithError, "WeightedMeanWithError", observe_wme);
impl_pair!(Covariance, "Covariance", observe_cov);

/// A histogram type over a fixed, valid edge vector (0, 1, …, LEN) as a `Chunky` estimator:
/// items are samples, out-of-range samples are rejected by `add` and leave it unchanged.
#[derive(Clone)]
pub struct HistChunk<H: Hist>(pub H);

impl<H: Hist> Chunky for HistChunk<H> {
    type Item = f64;
    const NAME: &'static str = H::NAME;
    fn fresh() -> Self {
        HistChunk(H::from_ranges_((0..=H::LEN).map(|i| i as f64).collect()).expect("valid edges"))
    }
    fn collect(items: &[f64]) -> Self {
        let mut h = Self::fresh();
        for x in items {
            let _ = h.0.add_(*x);
        }
        h
    }
    fn merge_(&mut self, o: &Self) {
        self.0.merge_(&o.0)
    }
    fn add_item(&mut self, i: f64) {
        let _ = self.0.add_(i);
    }
    fn item_bits(i: &f64) -> Vec<u64> {
        vec![i.to_bits()]
    }
    fn dbg(&self) -> String {
        self.0.dbg()
    }
    fn observe_(&self) -> Obs {
        let bins = self.0.bins_();
        let total: u64 = bins.iter().sum();
        let mut vals: Vec<(Stat, Val)> = Vec::new();
        for (i, b) in bins.iter().enumerate() {
            vals.push((Stat::Central(i.min(200) as u8), Val::F(*b as f64)));
        }
        for (i, v) in self.0.variances_().into_iter().enumerate() {
            vals.push((Stat::Standardized(i.min(200) as u8), Val::F(v)));
        }
        for r in self.0.ranges_() {
            vals.push((Stat::P, Val::F(r)));
        }
        Obs { len: Some(Ok(total)), is_empty: None, vals }
    }
    fn item_json(i: &f64) -> Value {
        fshow(*i)
    }
    fn item_parse(v: &Value) -> Option<f64> {
        fparse(v)
    }
}

/// Quantile (median by default) as an add-only `Chunky` estimator (it has no merge).
#[derive(Clone)]
pub struct QChunk(pub average::Quantile);
impl Chunky for QChunk {
    type Item = f64;
    const NAME: &'static str = "Quantile";
    fn fresh() -> Self {
        QChunk(average::Quantile::default())
    }
    fn collect(items: &[f64]) -> Self {
        let mut q = Self::fresh();
        for x in items {
            average::Estimate::add(&mut q.0, *x);
        }
        q
    }
    fn merge_(&mut self, _o: &Self) {
        unreachable!("Quantile has no merge")
    }
    fn has_merge() -> bool {
        false
    }
    fn add_item(&mut self, i: f64) {
        average::Estimate::add(&mut self.0, i)
    }
    fn item_bits(i: &f64) -> Vec<u64> {
        vec![i.to_bits()]
    }
    fn dbg(&self) -> String {
        format!("{:?}", self.0)
    }
    fn observe_(&self) -> Obs {
        observe_quantile(&self.0)
    }
    fn item_json(i: &f64) -> Value {
        fshow(*i)
    }
    fn item_parse(v: &Value) -> Option<f64> {
        fparse(v)
    }
}

// ---------------------------------------------------------------------------------------
// serde access (C18)

pub trait SerChunky: Chunky {
    fn to_json(&self) -> Result<String, String>;
    fn from_json(s: &str) -> Result<Self, String>;
}
impl<T: UniMerge + UniIngest> SerChunky for U<T> {
    fn to_json(&self) -> Result<String, String> {
        serde_json::to_string(&self.0).map_err(|e| e.to_string())
    }
    fn from_json(s: &str) -> Result<Self, String> {
        serde_json::from_str(s).map(U).map_err(|e| e.to_string())
    }
}
impl<H: Hist + serde::Serialize + serde::de::DeserializeOwned> SerChunky for HistChunk<H> {
    fn to_json(&self) -> Result<String, String> {
        serde_json::to_string(&self.0).map_err(|e| e.to_string())
    }
    fn from_json(s: &str) -> Result<Self, String> {
        serde_json::from_str(s).map(HistChunk).map_err(|e| e.to_string())
    }
}
macro_rules! impl_ser_plain {
    ($t:ty) => {
        impl SerChunky for $t {
            fn to_json(&self) -> Result<String, String> {
                serde_json::to_string(self).map_err(|e| e.to_string())
            }
            fn from_json(s: &str) -> Result<Self, String> {
                serde_json::from_str(s).map_err(|e| e.to_string())
            }
        }
    };
}
impl_ser_plain!(WeightedMean);
impl_ser_plain!(WeightedMeanWithError);
impl_ser_plain!(Covariance);

/// Quantile with a p chosen by a const index into a small grid.
#[derive(Clone)]
pub struct QP<const I: usize>(pub average::Quantile);
pub const QP_GRID: [f64; 8] = [0.0, 0.25, 0.5, 0.99, 0.2, 1. / 3., 0.9, 0.001];
impl<const I: usize> Chunky for QP<I> {
    type Item = f64;
    const NAME: &'static str = ["Quantile(p=0)", "Quantile(p=0.25)", "Quantile(p=0.5)", "Quantile(p=0.99)", "Quantile(p=0.2)", "Quantile(p=1/3)", "Quantile(p=0.9)", "Quantile(p=0.001)"][I];
    fn fresh() -> Self {
        QP(average::Quantile::new(QP_GRID[I]))
    }
    fn collect(items: &[f64]) -> Self {
        let mut q = Self::fresh();
        for x in items {
            average::Estimate::add(&mut q.0, *x);
        }
        q
    }
    fn merge_(&mut self, _o: &Self) {
        unreachable!("Quantile has no merge")
    }
    fn has_merge() -> bool {
        false
    }
    fn add_item(&mut self, i: f64) {
        average::Estimate::add(&mut self.0, i)
    }
    fn item_bits(i: &f64) -> Vec<u64> {
        vec![i.to_bits()]
    }
    fn dbg(&self) -> String {
        format!("{:?}", self.0)
    }
    fn observe_(&self) -> Obs {
        observe_quantile(&self.0)
    }
    fn item_json(i: &f64) -> Value {
        fshow(*i)
    }
    fn item_parse(v: &Value) -> Option<f64> {
        fparse(v)
    }
}
impl<const I: usize> SerChunky for QP<I> {
    fn to_json(&self) -> Result<String, String> {
        serde_json::to_string(&self.0).map_err(|e| e.to_string())
    }
    fn from_json(s: &str) -> Result<Self, String> {
        serde_json::from_str(s).map(QP).map_err(|e| e.to_string())
    }
}

// ---------------------------------------------------------------------------------------
// ingestion paths (C20)

pub trait Ingest: Chunky {
    fn dflt() -> Self;
    fn collect_vals(items: &[Self::Item]) -> Self;
    fn collect_refs(items: &[Self::Item]) -> Self;
    /// false: the type has no such Extend impl
    fn extend_vals(&mut self, items: &[Self::Item]) -> bool;
    fn extend_refs(&mut self, items: &[Self::Item]) -> bool;
    /// the same four paths fed from an iterator without a useful size_hint
    fn collect_vals_opaque(items: &[Self::Item]) -> Self;
    fn collect_refs_opaque(items: &[Self::Item]) -> Self;
    fn extend_vals_opaque(&mut self, items: &[Self::Item]) -> bool;
    fn extend_refs_opaque(&mut self, items: &[Self::Item]) -> bool;
}
impl<T: UniMerge + UniIngest> Ingest for U<T> {
    fn dflt() -> Self {
        U(T::dflt())
    }
    fn collect_vals(items: &[f64]) -> Self {
        U(T::collect_vals(items))
    }
    fn collect_refs(items: &[f64]) -> Self {
        U(T::collect_refs(items))
    }
    fn extend_vals(&mut self, items: &[f64]) -> bool {
        self.0.extend_vals(items)
    }
    fn extend_refs(&mut self, items: &[f64]) -> bool {
        self.0.extend_refs(items)
    }
    fn collect_vals_opaque(items: &[f64]) -> Self {
        U(T::collect_vals_opaque(items))
    }
    fn collect_refs_opaque(items: &[f64]) -> Self {
        U(T::collect_refs_opaque(items))
    }
    fn extend_vals_opaque(&mut self, items: &[f64]) -> bool {
        self.0.extend_vals_opaque(items)
    }
    fn extend_refs_opaque(&mut self, items: &[f64]) -> bool {
        self.0.extend_refs_opaque(items)
    }
}
macro_rules! impl_ingest_pair {
    ($t:ty) => {
        impl Ingest for $t {
            fn dflt() -> Self {
                Default::default()
            }
            fn collect_vals(items: &[(f64, f64)]) -> Self {
                items.iter().copied().collect()
            }
            fn collect_refs(items: &[(f64, f64)]) -> Self {
                items.iter().collect()
            }
            fn extend_vals(&mut self, items: &[(f64, f64)]) -> bool {
                self.extend(items.iter().copied());
                true
            }
            fn extend_refs(&mut self, items: &[(f64, f64)]) -> bool {
                self.extend(items.iter());
                true
            }
            fn collect_vals_opaque(items: &[(f64, f64)]) -> Self {
                items.iter().copied().filter(|_| true).collect()
            }
            fn collect_refs_opaque(items: &[(f64, f64)]) -> Self {
                items.iter().filter(|_| true).collect()
            }
            fn extend_vals_opaque(&mut self, items: &[(f64, f64)]) -> bool {
                self.extend(items.iter().copied().filter(|_| true));
                true
            }
            fn extend_refs_opaque(&mut self, items: &[(f64, f64)]) -> bool {
                self.extend(items.iter().filter(|_| true));
                true
            }
        }
    };
}
impl_ingest_pair!(WeightedMean);
impl_ingest_pair!(WeightedMeanWithError);
impl_ingest_pair!(Covariance);

/// Like `HistChunk`, over an edge vector with a repeated edge (a zero-width bin): 0, 1, 1, 2, …
#[derive(Clone)]
pub struct HistChunkRep<H: Hist>(pub H);
impl<H: Hist> Chunky for HistChunkRep<H> {
    type Item = f64;
    const NAME: &'static str = H::NAME;
    fn fresh() -> Self {
        let mut e: Vec<f64> = (0..=H::LEN).map(|i| i as f64).collect();
        if H::LEN >= 2 {
            e[2] = e[1];
        } else {
            e[1] = e[0];
        }
        HistChunkRep(H::from_ranges_(e).expect("valid edges"))
    }
    fn collect(items: &[f64]) -> Self {
        let mut h = Self::fresh();
        for x in items {
            let _ = h.0.add_(*x);
        }
        h
    }
    fn merge_(&mut self, o: &Self) {
        self.0.merge_(&o.0)
    }
    fn add_item(&mut self, i: f64) {
        let _ = self.0.add_(i);
    }
    fn item_bits(i: &f64) -> Vec<u64> {
        vec![i.to_bits()]
    }
    fn dbg(&self) -> String {
        self.0.dbg()
    }
    fn observe_(&self) -> Obs {
        HistChunk(self.0.clone()).observe_()
    }
    fn item_json(i: &f64) -> Value {
        fshow(*i)
    }
    fn item_parse(v: &Value) -> Option<f64> {
        fparse(v)
    }
}
impl<H: Hist + serde::Serialize + serde::de::DeserializeOwned> SerChunky for HistChunkRep<H> {
    fn to_json(&self) -> Result<String, String> {
        serde_json::to_string(&self.0).map_err(|e| e.to_string())
    }
    fn from_json(s: &str) -> Result<Self, String> {
        serde_json::from_str(s).map(HistChunkRep).map_err(|e| e.to_string())
    }
}
