//! C10 — bias-corrected sample statistics follow their textbook definitions.

use super::common::*;
use super::{common_assumptions, Plan};
use crate::report::Tier;
use crate::subjects::*;
use average::{Kurtosis, Moments4, Skewness, Variance};

fn filter(s: Stat) -> bool {
    matches!(s, Stat::SampleVar | Stat::VarOfMean | Stat::Error | Stat::SampleSkewness | Stat::SampleExKurt)
}

pub fn plan(tier: Tier) -> Plan {
    let mut checks: Vec<Box<dyn Check>> = Vec::new();
    let q = tier == Tier::Quick;
    for (a, dq, dt) in [("small", 6, 8), ("dec", 6, 8), ("tail", 6, 9), ("off9", 6, 9), ("negoff", 7, 10), ("two13", 8, 14), ("ap", 6, 9), ("tiny", 5, 7), ("large", 5, 7), ("mixed", 5, 7), ("tiny20", 5, 7), ("large25", 5, 7)] {
        let d = if q { dq } else { dt };
        checks.push(add_check::<Moments4>("C10", a, d, filter, true));
        checks.push(add_check::<M6>("C10", a, d, filter, true));
        checks.push(add_check::<M10>("C10", a, d.min(8), filter, true));
        checks.push(add_check::<Variance>("C10", a, d, filter, false));
        checks.push(add_check::<Skewness>("C10", a, d, filter, false));
        checks.push(add_check::<Kurtosis>("C10", a, d, filter, false));
    }
    let (n, k) = if q { (70_000u64, 3usize) } else { (1_000_000, 3) };
    for a in ["small", "tail", "off9", "tiny"] {
        checks.push(super::longrun::lasso::<Moments4>("C10", a, k, 3, n, filter, true));
        checks.push(super::longrun::lasso::<Variance>("C10", a, k, 3, n, filter, false));
    }
    // large n through self-merges (the sample statistics are functions of n)
    for a in ["small", "tail"] {
        checks.push(super::longrun::doubling::<Moments4>("C10", a, 3, 2, if q { 34 } else { 40 }, filter, true));
        checks.push(super::longrun::doubling::<Variance>("C10", a, 3, 2, if q { 34 } else { 40 }, filter, false));
    }
    Plan {
        rule: "large n: estimators merged with themselves up to 34 (40) times (n up to 2^41, beyond the stated 10^6) and cross merges; long lasso streams (every word of length <= 3 repeated to n = 70 000 / 1e6); AND every add-sequence over the alphabets small, dec, tail, off9, negoff, two13, ap (skew of both signs) up to the depth bound for Variance, Skewness, Kurtosis and define_moments! types of order 4, 6, 10; at every prefix (n from 0 upward, below-minimum sizes included) sample_variance, variance_of_mean, error, sample_skewness and sample_excess_kurtosis are judged against the textbook formulas evaluated on the exact central moments; WeightedMeanWithError's sample variance is judged in C08".into(),
        assumptions: common_assumptions(),
        checks,
    }
}
