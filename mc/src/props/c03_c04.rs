//! C03 — skewness and kurtosis equal the exact standardized moments;
//! C04 — define_moments! estimators of any order equal the exact central moments.

use super::common::*;
use super::{common_assumptions, Plan};
use crate::explore::{Found, Stats, Violation};
use crate::report::Tier;
use crate::subjects::*;
use average::{Kurtosis, Mean, Moments4, Skewness, Variance};
use serde_json::{json, Value};

fn filter03(s: Stat) -> bool {
    matches!(s, Stat::Mean | Stat::PopVar | Stat::SampleVar | Stat::Error | Stat::Skewness | Stat::Kurtosis)
}

pub fn plan03(tier: Tier) -> Plan {
    let q = tier == Tier::Quick;
    let mut checks: Vec<Box<dyn Check>> = Vec::new();
    for (a, dq, dt) in [("small", 7, 9), ("dec", 7, 9), ("tail", 7, 10), ("off9", 7, 10), ("negoff", 8, 11), ("ap", 7, 10), ("tiny", 6, 8), ("large", 6, 8), ("tiny20", 6, 8), ("large25", 6, 8), ("offbig", 6, 8), ("offsmall", 6, 8), ("two01", 10, 16), ("two13", 10, 16), ("two9", 10, 16)] {
        let d = if q { dq } else { dt };
        checks.push(add_check::<Skewness>("C03", a, d, filter03, false));
        checks.push(add_check::<Kurtosis>("C03", a, d, filter03, false));
    }
    let (n, k) = if q { (70_000u64, 3usize) } else { (1_000_000, 3) };
    for a in ["small", "dec", "off9", "tail", "tiny"] {
        checks.push(super::longrun::lasso::<Skewness>("C03", a, k, 3, n, filter03, false));
        checks.push(super::longrun::lasso::<Kurtosis>("C03", a, k, 3, n, filter03, false));
    }
    Plan {
        rule: "long streams as a finite family (every word of length <= 3 over 3-/4-letter sub-alphabets repeated to n = 70 000 / 1e6, judged at n = 1..16, around powers of two and at the end); AND every add-sequence over small, dec, tail, off9, negoff, ap and three two-point alphabets up to the depth bound for Skewness and Kurtosis; every prefix with n >= 1 judged (skewness, kurtosis, mean, variances, error_mean) against exact rational central moments under the section-4 envelopes; non-trivial = multiset inside the envelope domain".into(),
        assumptions: common_assumptions(),
        checks,
    }
}

fn filter04(s: Stat) -> bool {
    matches!(s, Stat::Mean | Stat::Central(_) | Stat::Standardized(_) | Stat::SampleVar)
}

fn fam04<T: Uni>(checks: &mut Vec<Box<dyn Check>>, q: bool) {
    for (a, dq, dt) in [("small", 6, 8), ("dec", 6, 8), ("tail", 6, 9), ("off9", 6, 9), ("off11", 6, 8), ("negoff", 7, 10), ("mixed", 6, 8), ("ap", 6, 9), ("tiny", 5, 7), ("large", 5, 7), ("tiny20", 5, 7), ("large25", 5, 7), ("offbig", 5, 7), ("offsmall", 5, 7), ("two13", 9, 14)] {
        let d = if q { dq } else { dt };
        checks.push(add_check::<T>("C04", a, d, filter04, true));
    }
}

pub fn plan04(tier: Tier) -> Plan {
    let q = tier == Tier::Quick;
    let mut checks: Vec<Box<dyn Check>> = Vec::new();
    fam04::<Moments4>(&mut checks, q);
    fam04::<M4>(&mut checks, q);
    fam04::<M5>(&mut checks, q);
    fam04::<M6>(&mut checks, q);
    fam04::<M8>(&mut checks, q);
    fam04::<M10>(&mut checks, q);
    let (n, k) = if q { (70_000u64, 3usize) } else { (1_000_000, 3) };
    for a in ["small", "dec", "off9", "tail"] {
        checks.push(super::longrun::lasso::<Moments4>("C04", a, k, 3, n, filter04, true));
        checks.push(super::longrun::lasso::<M6>("C04", a, k, 3, n, filter04, true));
        checks.push(super::longrun::lasso::<M10>("C04", a, k, if q { 2 } else { 3 }, n, filter04, true));
    }
    for a in ["small", "off9", "tail", "dec"] {
        checks.push(Box::new(Agree { alpha: a, depth: if q { 6 } else { 8 } }));
    }
    Plan {
        rule: "every add-sequence over nine alphabets up to the depth bound for define_moments! types of order 4 (the crate's Moments4 and an engine instance), 5, 6, 8, 10; len, mean, central_moment(p) and standardized_moment(p) for every p in 0..=N at every prefix against exact rational central moments (C_p envelopes), restricted to n·max|x|^N < 1e300; plus agreement of the order-N results with Mean/Variance/Skewness/Kurtosis fed the same history (twice the envelope)".into(),
        assumptions: common_assumptions(),
        checks,
    }
}

/// Cross-type agreement (C04 last sentence): the define_moments! results agree with the
/// specialised estimators fed the same history within twice the envelope.
pub struct Agree {
    pub alpha: &'static str,
    pub depth: usize,
}
impl Agree {
    fn judge(&self, xs: &[f64]) -> Vec<Violation> {
        use crate::envelope::*;
        let mut out = Vec::new();
        let mut m = Mean::fresh();
        let mut v = Variance::fresh();
        let mut s = Skewness::fresh();
        let mut k = Kurtosis::fresh();
        let mut m4 = Moments4::fresh();
        let mut m6 = M6::fresh();
        let mut m10 = M10::fresh();
        for &x in xs {
            m.add1(x);
            v.add1(x);
            s.add1(x);
            k.add1(x);
            m4.add1(x);
            m6.add1(x);
            m10.add1(x);
        }
        let ex = crate::exact::ExactStats::new(xs, 4);
        if !(ex.sigma > 0.0) || ex.kappa > KAPPA_MAX {
            return out;
        }
        let n = ex.n as f64;
        let e = n * ex.kappa * U;
        let pairs: Vec<(&str, f64, f64, f64)> = vec![
            ("mean~Mean", m4.mean(), Uni::get(&m, Stat::Mean), 2.0 * C_MEAN * n * U * (ex.sigma + ex.max_abs)),
            ("mean~Mean(M6)", m6.mean(), Uni::get(&m, Stat::Mean), 2.0 * C_MEAN * n * U * (ex.sigma + ex.max_abs)),
            ("central_moment(2)~Variance", m4.central_moment(2), v.population_variance(), 2.0 * C_VAR * e * ex.m[2].to_f64()),
            ("central_moment(2)~Variance(M10)", m10.central_moment(2), v.population_variance(), 2.0 * C_VAR * e * ex.m[2].to_f64()),
            ("sample_variance~Variance", m6.sample_variance(), v.sample_variance(), 2.0 * C_VAR * e * ex.m[2].to_f64() * n / (n - 1.0)),
            ("standardized_moment(3)~Skewness", m4.standardized_moment(3), s.skewness(), 2.0 * c_std(3) * e * ex.a[3].to_f64() / ex.sigma.powi(3)),
            ("standardized_moment(3)~Skewness(M10)", m10.standardized_moment(3), s.skewness(), 2.0 * c_std(3) * e * ex.a[3].to_f64() / ex.sigma.powi(3)),
            ("standardized_moment(4)-3~Kurtosis", m4.standardized_moment(4) - 3.0, k.kurtosis(), 2.0 * c_std(4) * e * ex.a[4].to_f64() / ex.sigma.powi(4) + 8.0 * U),
            ("standardized_moment(4)-3~Kurtosis(M6)", m6.standardized_moment(4) - 3.0, k.kurtosis(), 2.0 * c_std(4) * e * ex.a[4].to_f64() / ex.sigma.powi(4) + 8.0 * U),
        ];
        for (what, a, b, tol) in pairs {
            if !((a - b).abs() <= tol * SLACK) {
                out.push(Violation { sig: format!("moments-agree:{what}"), detail: format!("{what}: {a:?} vs {b:?} (tolerance {tol:e}) on {xs:?}") });
            }
        }
        out
    }
}
impl Check for Agree {
    fn name(&self) -> String {
        format!("C04/agreement/{}", self.alpha)
    }
    fn run(&self) -> Stats {
        use rayon::prelude::*;
        let t0 = std::time::Instant::now();
        let alpha = alphabet(self.alpha);
        let mut st = Stats { spec: self.name(), depth_requested: self.depth, depth_completed: self.depth, ..Default::default() };
        let mut found: std::collections::BTreeMap<String, Found> = Default::default();
        for len in 2..=self.depth {
            let words = super::hist06::all_lists(&alpha, len);
            let res: Vec<Vec<(Violation, Vec<f64>)>> = words.par_iter().map(|w| guarded(|| self.judge(w)).unwrap_or_else(|m| vec![Violation { sig: "moments-agree:panic".into(), detail: m }]).into_iter().map(|v| (v, w.clone())).collect()).collect();
            st.states += words.len() as u64;
            st.transitions += 7 * (len as u64) * words.len() as u64;
            st.nontrivial_states += words.len() as u64;
            if len == self.depth {
                st.maximal = words.len() as u64;
                st.samples.push(json!({"spec": self.name(), "history": words[words.len() / 3].iter().map(|x| fshow(*x)).collect::<Vec<_>>()}));
            }
            st.frontier_sizes.push(words.len() as u64);
            for r in res {
                for (v, w) in r {
                    let e = found.entry(v.sig.clone()).or_insert(Found { sig: v.sig, detail: v.detail, path: w.iter().map(|x| json!({"add": fshow(*x)})).collect(), count: 0 });
                    e.count += 1;
                }
            }
        }
        st.outcomes = st.states;
        st.found = found.into_values().collect();
        st.wall_s = t0.elapsed().as_secs_f64();
        st
    }
    fn replay(&self, path: &[Value]) -> Result<Vec<Violation>, String> {
        let xs: Vec<f64> = path.iter().map(|v| v.get("add").and_then(fparse)).collect::<Option<Vec<_>>>().ok_or("bad path")?;
        Ok(self.judge(&xs))
    }
}
