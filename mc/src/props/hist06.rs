//! C06 — a histogram counts each sample in the unique half-open bin that contains it.

use super::common::*;
use super::{common_assumptions, Plan};
use crate::explore::{Found, Spec, Stats, Violation};
use crate::refmodels::hist::{ref_find, sample_set};
use crate::report::Tier;
use crate::subjects::*;
use rayon::prelude::*;
use serde_json::{json, Value};
use std::collections::BTreeMap;
use std::marker::PhantomData;

/// every list of `n` values over `alpha` (odometer order)
pub fn all_lists(alpha: &[f64], n: usize) -> Vec<Vec<f64>> {
    let mut out = Vec::new();
    let mut idx = vec![0usize; n];
    loop {
        out.push(idx.iter().map(|&i| alpha[i]).collect());
        let mut k = n;
        loop {
            if k == 0 {
                return out;
            }
            k -= 1;
            idx[k] += 1;
            if idx[k] < alpha.len() {
                break;
            }
            idx[k] = 0;
        }
    }
}

/// every non-decreasing vector of `n` values over the (sorted) lattice
pub fn nondecreasing(lattice: &[f64], n: usize) -> Vec<Vec<f64>> {
    fn rec(lattice: &[f64], n: usize, start: usize, cur: &mut Vec<f64>, out: &mut Vec<Vec<f64>>) {
        if cur.len() == n {
            out.push(cur.clone());
            return;
        }
        for i in start..lattice.len() {
            cur.push(lattice[i]);
            rec(lattice, n, i, cur, out);
            cur.pop();
        }
    }
    let mut out = Vec::new();
    rec(lattice, n, 0, &mut Vec::new(), &mut out);
    out
}

pub fn configs_for<H: Hist>(family: &str) -> Vec<Vec<f64>> {
    let n = H::LEN + 1;
    match family {
        // every list over the edge lattice that from_ranges accepts
        "edge-lattice" => all_lists(&alphabet("edge"), n).into_iter().filter(|l| H::from_ranges_(l.clone()).is_ok()).collect(),
        "lattice3" => nondecreasing(&[0., 1., 2.], n),
        "lattice4" => nondecreasing(&[-1., 0., 0.5, 2.], n),
        "lattice3-inf" => nondecreasing(&[0., 1., 2.], n - 2)
            .into_iter()
            .map(|mut v| {
                v.insert(0, f64::NEG_INFINITY);
                v.push(f64::INFINITY);
                v
            })
            .collect(),
        "const-width" => {
            let mut out = Vec::new();
            for (a, b) in [(0., 1.), (-30., 70.), (0.1, 0.7), (-1e-3, 1e9), (1e15, 1e15 + 64.), (-3., 3.)] {
                out.push(H::with_const_width_(a, b).ranges_());
            }
            out
        }
        _ => panic!("unknown family {family}"),
    }
}

fn edges_json(e: &[f64]) -> Value {
    Value::Array(e.iter().map(|x| fshow(*x)).collect())
}
fn edges_parse(v: &Value) -> Option<Vec<f64>> {
    v.as_array()?.iter().map(fparse).collect()
}

/// find()/add() on a fresh histogram for one (edge vector, sample).
fn judge_find_add<H: Hist>(edges: &[f64], x: f64) -> Vec<Violation> {
    let mut out = Vec::new();
    let h = match H::from_ranges_(edges.to_vec()) {
        Ok(h) => h,
        Err(e) => return vec![Violation { sig: format!("{}.from_ranges:rejects-config", H::NAME), detail: format!("from_ranges({edges:?}) = {e:?}") }],
    };
    let want = ref_find(edges, x);
    let class = if x.is_nan() {
        "nan-sample"
    } else if x.is_infinite() {
        "infinite-sample"
    } else if edges.iter().any(|e| *e == x) {
        "sample-on-edge"
    } else {
        "sample-off-edge"
    };
    match guarded(|| h.find_(x)) {
        Err(m) => out.push(Violation { sig: format!("hist.find:{class}:panic"), detail: format!("{}: edges {edges:?}: find({x:?}) panicked: {m}", H::NAME) }),
        Ok(got) => {
            let got = got.ok();
            if got != want {
                out.push(Violation {
                    sig: format!("hist.find:{class}:wrong-bin"),
                    detail: format!("{}: edges {edges:?}: find({x:?}) = {got:?}, the bin containing it is {want:?}", H::NAME),
                });
            }
        }
    }
    let mut h2 = h.clone();
    let r = guarded(move || {
        let r = h2.add_(x);
        (r, h2)
    });
    match r {
        Err(m) => out.push(Violation { sig: format!("hist.add:{class}:panic"), detail: format!("{}: edges {edges:?}: add({x:?}) panicked: {m}", H::NAME) }),
        Ok((r, h2)) => {
            let mut expect = vec![0u64; H::LEN];
            if let Some(i) = want {
                expect[i] = 1;
            }
            if r.is_ok() != want.is_some() || h2.bins_() != expect {
                out.push(Violation {
                    sig: format!("hist.add:{class}:wrong-count"),
                    detail: format!("{}: edges {edges:?}: add({x:?}) = {r:?}, bins {:?}, expected {:?}", H::NAME, h2.bins_(), expect),
                });
            }
            if h2.ranges_().iter().map(|x| x.to_bits()).ne(h.ranges_().iter().map(|x| x.to_bits())) {
                out.push(Violation { sig: "hist.add:edges-changed".into(), detail: format!("{}: add({x:?}) changed the edges", H::NAME) });
            }
        }
    }
    // range_min / range_max are the outer edges
    if h.range_min_().to_bits() != edges[0].to_bits() || h.range_max_().to_bits() != edges[H::LEN].to_bits() {
        out.push(Violation { sig: "hist.range_minmax:wrong".into(), detail: format!("{}: edges {edges:?}: range_min/max = {:?}/{:?}", H::NAME, h.range_min_(), h.range_max_()) });
    }
    out
}

pub struct FindSweep<H: Hist> {
    pub family: &'static str,
    pub _h: PhantomData<H>,
}
impl<H: Hist> Check for FindSweep<H> {
    fn name(&self) -> String {
        format!("C06/find-sweep/{}/{}", H::NAME, self.family)
    }
    fn run(&self) -> Stats {
        let t0 = std::time::Instant::now();
        let mut st = Stats { spec: self.name(), depth_requested: 1, depth_completed: 1, closed: true, ..Default::default() };
        let cfgs = configs_for::<H>(self.family);
        let res: Vec<(u64, u64, Vec<(Violation, Value)>, std::collections::BTreeSet<String>)> = cfgs
            .par_iter()
            .map(|edges| {
                let mut n = 0u64;
                let mut sigs = std::collections::HashSet::new();
                let mut found = Vec::new();
                let mut outcomes = std::collections::BTreeSet::new();
                let mut zero_width_or_inf = 0u64;
                for x in sample_set(edges) {
                    n += 1;
                    outcomes.insert(format!("{:?}", ref_find(edges, x)));
                    for v in judge_find_add::<H>(edges, x) {
                        if sigs.insert(v.sig.clone()) {
                            found.push((v, json!([{"edges": edges_json(edges)}, {"sample": fshow(x)}])));
                        }
                    }
                }
                if edges.windows(2).any(|w| w[0] == w[1]) || edges.iter().any(|e| e.is_infinite()) {
                    zero_width_or_inf = n;
                }
                (n, zero_width_or_inf, found, outcomes)
            })
            .collect();
        let mut found: BTreeMap<String, Found> = BTreeMap::new();
        let mut outcomes = std::collections::BTreeSet::new();
        for (n, nt, f, o) in res {
            st.states += n;
            st.transitions += 2 * n;
            st.maximal += n;
            st.nontrivial_states += nt;
            outcomes.extend(o);
            for (v, path) in f {
                let e = found.entry(v.sig.clone()).or_insert(Found { sig: v.sig, detail: v.detail, path: path.as_array().unwrap().clone(), count: 0 });
                e.count += 1;
            }
        }
        st.outcomes = outcomes.len() as u64;
        st.found = found.into_values().collect();
        if let Some(c) = cfgs.get(cfgs.len() / 2) {
            st.samples.push(json!({"spec": self.name(), "history": [{"edges": edges_json(c)}, {"samples": sample_set(c).iter().map(|x| format!("{x:?}")).collect::<Vec<_>>()}]}));
        }
        st.frontier_sizes = vec![cfgs.len() as u64, st.states];
        st.wall_s = t0.elapsed().as_secs_f64();
        st
    }
    fn replay(&self, path: &[Value]) -> Result<Vec<Violation>, String> {
        let edges = path.first().and_then(|v| v.get("edges")).and_then(edges_parse).ok_or("bad edges")?;
        let x = path.get(1).and_then(|v| v.get("sample")).and_then(fparse).ok_or("bad sample")?;
        Ok(judge_find_add::<H>(&edges, x))
    }
    fn extra(&self) -> Value {
        json!({"configs": configs_for::<H>(self.family).len()})
    }
}

// ---------------------------------------------------------------------------------------
// add histories: state = real histogram + ghost bins + ghost number of successful adds

#[derive(Clone)]
pub struct HState<H: Hist> {
    pub h: Result<H, String>,
    pub edges: Vec<f64>,
    pub ghost: Vec<u64>,
    pub ok_adds: u64,
}

pub struct AddHistSpec<H: Hist> {
    pub family: &'static str,
    pub _h: PhantomData<H>,
}

impl<H: Hist> Spec for AddHistSpec<H> {
    type State = HState<H>;
    type Op = f64;
    fn name(&self) -> String {
        format!("C06/add-histories/{}/{}", H::NAME, self.family)
    }
    fn init(&self) -> Vec<HState<H>> {
        configs_for::<H>(self.family)
            .into_iter()
            .map(|e| HState { h: H::from_ranges_(e.clone()).map_err(|e| format!("{e:?}")), edges: e, ghost: vec![0; H::LEN], ok_adds: 0 })
            .collect()
    }
    fn ops(&self, s: &HState<H>) -> Vec<f64> {
        if s.h.is_err() {
            return vec![];
        }
        sample_set(&s.edges)
    }
    fn step(&self, s: &HState<H>, op: &f64) -> HState<H> {
        let mut h = s.h.clone().unwrap();
        let x = *op;
        let r = guarded(move || {
            let r = h.add_(x);
            (r, h)
        });
        let mut ghost = s.ghost.clone();
        let mut ok_adds = s.ok_adds;
        match r {
            Err(m) => HState { h: Err(m), edges: s.edges.clone(), ghost, ok_adds },
            Ok((r, h)) => {
                if r.is_ok() {
                    ok_adds += 1;
                }
                if let Some(i) = ref_find(&s.edges, x) {
                    ghost[i] += 1;
                }
                HState { h: Ok(h), edges: s.edges.clone(), ghost, ok_adds }
            }
        }
    }
    fn key(&self, s: &HState<H>) -> String {
        match &s.h {
            Ok(h) => format!("{}|{:?}|{}", h.dbg(), s.ghost, s.ok_adds),
            Err(m) => format!("panic:{m}|{:?}|{:?}", s.edges, s.ghost),
        }
    }
    fn check(&self, s: &HState<H>, op: &f64, t: &HState<H>) -> Vec<Violation> {
        let x = *op;
        let class = if x.is_nan() { "nan-sample" } else { "sample" };
        match &t.h {
            Err(m) => vec![Violation { sig: format!("hist.add:{class}:panic"), detail: format!("{}: edges {:?}, bins {:?}: add({x:?}) panicked: {m}", H::NAME, s.edges, s.ghost) }],
            Ok(h) => {
                let mut out = Vec::new();
                let bins = h.bins_();
                if bins != t.ghost {
                    out.push(Violation {
                        sig: format!("hist.add:{class}:wrong-count"),
                        detail: format!("{}: edges {:?}: after add({x:?}) bins are {:?}, expected {:?}", H::NAME, s.edges, bins, t.ghost),
                    });
                }
                let total: u64 = bins.iter().sum();
                if total != t.ok_adds {
                    out.push(Violation {
                        sig: "hist.total:not-number-of-successful-adds".into(),
                        detail: format!("{}: edges {:?}: total count {total} after {} successful adds", H::NAME, s.edges, t.ok_adds),
                    });
                }
                for (i, w) in s.edges.windows(2).enumerate() {
                    if w[0] == w[1] && bins[i] != 0 {
                        out.push(Violation { sig: "hist.zero-width-bin:received-sample".into(), detail: format!("{}: edges {:?}: bins {:?}", H::NAME, s.edges, bins) });
                    }
                }
                out
            }
        }
    }
    fn outcome(&self, s: &HState<H>) -> String {
        match &s.h {
            Ok(h) => format!("{:?}", h.bins_()),
            Err(_) => "panic".into(),
        }
    }
    fn show_op(&self, op: &f64) -> Value {
        json!({"add": fshow(*op)})
    }
}
impl<H: Hist> ReplaySpec for AddHistSpec<H> {
    fn parse_op(&self, v: &Value) -> Option<f64> {
        fparse(v.get("add")?)
    }
}

fn sweep<H: Hist>(family: &'static str) -> Box<dyn Check> {
    Box::new(FindSweep::<H> { family, _h: PhantomData })
}
fn hist<H: Hist>(family: &'static str, depth: usize) -> Box<dyn Check> {
    Box::new(Bfs::new(AddHistSpec::<H> { family, _h: PhantomData }, depth))
}

pub fn plan(tier: Tier) -> Plan {
    let mut checks: Vec<Box<dyn Check>> = Vec::new();
    checks.push(sweep::<H1>("edge-lattice"));
    checks.push(sweep::<H2>("edge-lattice"));
    checks.push(sweep::<H3>("edge-lattice"));
    checks.push(sweep::<H4>("edge-lattice"));
    for fam in ["lattice3", "lattice4", "lattice3-inf", "const-width"] {
        checks.push(sweep::<H10>(fam));
        checks.push(sweep::<average::Histogram10>(fam));
    }
    checks.push(sweep::<H100>("lattice3"));
    checks.push(sweep::<H100>("lattice3-inf"));
    checks.push(sweep::<H100>("const-width"));
    checks.push(sweep::<H1>("const-width"));
    checks.push(sweep::<H3>("const-width"));
    let q = tier == Tier::Quick;
    checks.push(hist::<H1>("edge-lattice", if q { 4 } else { 5 }));
    checks.push(hist::<H2>("edge-lattice", 3));
    checks.push(hist::<H3>("edge-lattice", if q { 2 } else { 3 }));
    checks.push(hist::<H3>("lattice3", if q { 3 } else { 4 }));
    checks.push(hist::<H4>("lattice3", if q { 2 } else { 3 }));
    if !q {
        checks.push(hist::<H4>("edge-lattice", 2));
        checks.push(hist::<H10>("lattice3", 2));
    }
    checks.push(cross(AddHistSpec::<H1> { family: "edge-lattice", _h: PhantomData }, 3));
    checks.push(cross(AddHistSpec::<H3> { family: "lattice3", _h: PhantomData }, 3));
    #[cfg(feature = "nightly")]
    {
        checks.push(sweep::<K1>("edge-lattice"));
        checks.push(sweep::<K2>("edge-lattice"));
        checks.push(sweep::<K3>("edge-lattice"));
        checks.push(sweep::<K4>("edge-lattice"));
        for fam in ["lattice3", "lattice4", "lattice3-inf", "const-width"] {
            checks.push(sweep::<K10>(fam));
        }
        checks.push(sweep::<K100>("lattice3"));
        checks.push(sweep::<K100>("lattice3-inf"));
        checks.push(hist::<K1>("edge-lattice", 3));
        checks.push(hist::<K2>("edge-lattice", 3));
        checks.push(hist::<K3>("lattice3", 4));
        checks.push(hist::<K4>("lattice3", 3));
    }
    Plan {
        rule: "find-sweep: every accepted edge vector of the family (LEN 1..4: every list over the 9-value edge lattice that from_ranges accepts; LEN 10/100: every non-decreasing vector over a 3- or 4-value lattice, with and without infinite outer edges) x the sample set (every edge, its two floating-point neighbours, midpoints, +-inf, NaN, +-0, +-MAX, +-5e-324), find() and add() against a linear bin scan; add-histories: BFS over add sequences with ghost bins and ghost success counter; non-trivial = configurations with a zero-width bin or an infinite edge".into(),
        assumptions: common_assumptions(),
        checks,
    }
}
