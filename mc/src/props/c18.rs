//! C18 — a serde round trip at any point is invisible to the rest of the computation.

use super::chunky_impls::*;
use super::common::*;
use super::hist06::all_lists;
use super::interval::Chunky;
use super::{common_assumptions, Plan};
use crate::explore::{Spec, Violation};
use crate::report::Tier;
use crate::subjects::*;
use average::{Covariance, Kurtosis, Max, Mean, Min, Moments4, Skewness, Variance, WeightedMean, WeightedMeanWithError};
use serde_json::{json, Value};

#[derive(Clone, Debug, PartialEq)]
pub enum SOp<I> {
    Add(I),
    MergeCollected(Vec<I>),
    Checkpoint,
}

#[derive(Clone)]
pub struct SState<T: SerChunky> {
    e: Result<T, String>,
    /// violations detected while stepping (checkpoint oracle needs both objects)
    fault: Vec<(String, String)>,
    skipped_non_finite: bool,
}

pub struct SerSpec<T: SerChunky> {
    pub alpha_name: String,
    pub alpha: Vec<T::Item>,
    pub words: Vec<Vec<T::Item>>,
}

impl<T: SerChunky> SerSpec<T> {
    fn base_ops(&self) -> Vec<SOp<T::Item>> {
        let mut v: Vec<SOp<T::Item>> = self.alpha.iter().map(|i| SOp::Add(*i)).collect();
        if T::has_merge() {
            for w in &self.words {
                v.push(SOp::MergeCollected(w.clone()));
            }
        }
        v
    }
    fn apply(e: &T, op: &SOp<T::Item>) -> Result<T, String> {
        let mut e = e.clone();
        let op = op.clone();
        guarded(move || {
            match &op {
                SOp::Add(i) => e.add_item(*i),
                SOp::MergeCollected(w) => e.merge_(&T::collect(w)),
                SOp::Checkpoint => unreachable!(),
            }
            e
        })
    }
    fn same(a: &Result<T, String>, b: &Result<T, String>) -> Option<String> {
        match (a, b) {
            (Ok(a), Ok(b)) => {
                if a.dbg() != b.dbg() {
                    return Some(format!("state {} vs {}", a.dbg(), b.dbg()));
                }
                let (oa, ob) = (a.observe_(), b.observe_());
                if !oa.bits_eq(&ob) {
                    return Some(format!("statistics differ: {}", oa.first_diff(&ob)));
                }
                None
            }
            (Err(_), Err(_)) => None,
            (Ok(_), Err(m)) => Some(format!("restored copy panicked: {m}")),
            (Err(m), Ok(_)) => Some(format!("original panicked: {m}")),
        }
    }
}

impl<T: SerChunky> Spec for SerSpec<T> {
    type State = SState<T>;
    type Op = SOp<T::Item>;
    fn name(&self) -> String {
        format!("C18/serde/{}/{}", T::NAME, self.alpha_name)
    }
    fn init(&self) -> Vec<SState<T>> {
        vec![SState { e: Ok(T::fresh()), fault: vec![], skipped_non_finite: false }]
    }
    fn ops(&self, s: &SState<T>) -> Vec<Self::Op> {
        if s.e.is_err() {
            return vec![];
        }
        let mut v = self.base_ops();
        v.push(SOp::Checkpoint);
        v
    }
    fn step(&self, s: &SState<T>, op: &Self::Op) -> SState<T> {
        let e = s.e.as_ref().unwrap();
        match op {
            SOp::Checkpoint => {
                let before = e.dbg();
                let mut fault = Vec::new();
                let js = match guarded(|| e.to_json()) {
                    Err(m) => return SState { e: Ok(e.clone()), fault: vec![(format!("{}.serialize:panic", T::NAME), m)], skipped_non_finite: false },
                    Ok(Err(m)) => return SState { e: Ok(e.clone()), fault: vec![(format!("{}.serialize:error", T::NAME), format!("{before}: {m}"))], skipped_non_finite: false },
                    Ok(Ok(js)) => js,
                };
                if e.dbg() != before {
                    fault.push((format!("{}.serialize:modifies-estimator", T::NAME), format!("was {before}, is {}", e.dbg())));
                }
                if js.contains("null") {
                    // a non-finite field (serde_json writes it as null): outside the statement
                    return SState { e: Ok(e.clone()), fault, skipped_non_finite: true };
                }
                let r = match guarded(|| T::from_json(&js)) {
                    Err(m) => return SState { e: Ok(e.clone()), fault: vec![(format!("{}.deserialize:panic", T::NAME), format!("{js}: {m}"))], skipped_non_finite: false },
                    Ok(Err(m)) => return SState { e: Ok(e.clone()), fault: vec![(format!("{}.deserialize:error", T::NAME), format!("{js}: {m}"))], skipped_non_finite: false },
                    Ok(Ok(r)) => r,
                };
                if let Some(d) = Self::same(&Ok(e.clone()), &Ok(r.clone())) {
                    fault.push((format!("{}.roundtrip:differs", T::NAME), format!("restored from {js}: {d}")));
                }
                // continuations of up to two further operations on both copies
                let ops = self.base_ops();
                'outer: for o1 in &ops {
                    let a1 = Self::apply(e, o1);
                    let b1 = Self::apply(&r, o1);
                    if let Some(d) = Self::same(&a1, &b1) {
                        fault.push((format!("{}.roundtrip:continuation-differs", T::NAME), format!("after restoring from {js} and then {o1:?}: {d}")));
                        break 'outer;
                    }
                    if let (Ok(a1), Ok(b1)) = (&a1, &b1) {
                        for o2 in &ops {
                            let a2 = Self::apply(a1, o2);
                            let b2 = Self::apply(b1, o2);
                            if let Some(d) = Self::same(&a2, &b2) {
                                fault.push((format!("{}.roundtrip:continuation-differs", T::NAME), format!("after restoring from {js} and then {o1:?}, {o2:?}: {d}")));
                                break 'outer;
                            }
                        }
                    }
                }
                SState { e: Ok(r), fault, skipped_non_finite: false }
            }
            _ => SState { e: Self::apply(e, op), fault: vec![], skipped_non_finite: false },
        }
    }
    fn key(&self, s: &SState<T>) -> String {
        match &s.e {
            Ok(e) => e.dbg(),
            Err(m) => format!("panic:{m}"),
        }
    }
    fn check(&self, _s: &SState<T>, _op: &Self::Op, t: &SState<T>) -> Vec<Violation> {
        let mut out: Vec<Violation> = t.fault.iter().map(|(s, d)| Violation { sig: s.clone(), detail: d.clone() }).collect();
        if let Err(m) = &t.e {
            out.push(Violation { sig: format!("{}.op:panic", T::NAME), detail: m.clone() });
        }
        out
    }
    fn outcome(&self, s: &SState<T>) -> String {
        match &s.e {
            Ok(e) => e.observe_().fingerprint(),
            Err(_) => "panic".into(),
        }
    }
    fn show_op(&self, op: &Self::Op) -> Value {
        match op {
            SOp::Add(i) => json!({"add": T::item_json(i)}),
            SOp::MergeCollected(w) => json!({"merge_collected": w.iter().map(|i| T::item_json(i)).collect::<Vec<_>>()}),
            SOp::Checkpoint => json!({"checkpoint": true}),
        }
    }
    fn nontrivial(&self, s: &SState<T>) -> bool {
        !s.skipped_non_finite
    }
}
impl<T: SerChunky> ReplaySpec for SerSpec<T> {
    fn parse_op(&self, v: &Value) -> Option<Self::Op> {
        if let Some(i) = v.get("add") {
            return Some(SOp::Add(T::item_parse(i)?));
        }
        if let Some(w) = v.get("merge_collected") {
            return Some(SOp::MergeCollected(w.as_array()?.iter().map(|i| T::item_parse(i)).collect::<Option<Vec<_>>>()?));
        }
        if v.get("checkpoint").is_some() {
            return Some(SOp::Checkpoint);
        }
        None
    }
}

fn words_of<I: Copy>(alpha: &[I]) -> Vec<Vec<I>> {
    let mut w: Vec<Vec<I>> = vec![vec![]];
    for a in alpha {
        w.push(vec![*a]);
    }
    for a in alpha {
        for b in alpha {
            w.push(vec![*a, *b]);
        }
    }
    w
}

fn ser<T: SerChunky>(name: &str, alpha: Vec<T::Item>, depth: usize) -> Box<dyn Check> {
    let words = words_of(&alpha);
    Box::new(Bfs::new(SerSpec::<T> { alpha_name: name.into(), alpha, words }, depth))
}

pub fn plan(tier: Tier) -> Plan {
    let q = tier == Tier::Quick;
    let d = if q { 4 } else { 6 };
    let mut checks: Vec<Box<dyn Check>> = Vec::new();
    let _ = all_lists(&[0.], 1);
    for a in ["tri", "off9", "dec"] {
        let al = sub_alphabet(a, 3);
        checks.push(ser::<U<Mean>>(a, al.clone(), d));
        checks.push(ser::<U<Variance>>(a, al.clone(), d));
        checks.push(ser::<U<Skewness>>(a, al.clone(), d));
        checks.push(ser::<U<Kurtosis>>(a, al.clone(), d));
        checks.push(ser::<U<Moments4>>(a, al.clone(), d));
        checks.push(ser::<U<M6>>(a, al.clone(), d));
        checks.push(ser::<U<M10>>(a, al.clone(), d));
        checks.push(ser::<U<Min>>(a, al.clone(), d));
        checks.push(ser::<U<Max>>(a, al.clone(), d));
    }
    for a in ["tri", "qties"] {
        let al = sub_alphabet(a, 3);
        let dq = if q { 7 } else { 9 };
        checks.push(ser::<QP<0>>(a, al.clone(), dq));
        checks.push(ser::<QP<1>>(a, al.clone(), dq));
        checks.push(ser::<QP<2>>(a, al.clone(), dq));
        checks.push(ser::<QP<3>>(a, al.clone(), dq));
    }
    let wp = vec![(-1., 0.), (0.1, 0.5), (3., 1e6)];
    checks.push(ser::<WeightedMean>("w3", wp.clone(), d));
    checks.push(ser::<WeightedMeanWithError>("w3", wp, d));
    checks.push(ser::<Covariance>("corr3", vec![(1., 5.), (2., 4.1), (-3., 0.1)], d));
    checks.push(ser::<Covariance>("off3", vec![(1e9 - 3., -1e6 + 0.5), (1e9 + 4., -1e6 - 2.), (1e9 + 13., -1e6)], d));
    checks.push(ser::<HistChunk<H2>>("samples", vec![0.5, 1.5, 7.], d));
    checks.push(ser::<HistChunk<average::Histogram10>>("samples", vec![0.5, 4.5, 9.5], d));
    checks.push(ser::<HistChunk<H100>>("samples", vec![0.5, 50.5, 99.5], if q { 3 } else { 4 }));
    Plan {
        rule: "for every serialisable estimator type: BFS over add(x) (3-value alphabets), merge(collect(w)) for every word w of length <= 2, and checkpoint = serde_json (float_roundtrip) to_string -> from_str replacing the object; at EVERY reachable state (position 0, inside Quantile's <5 phase, between merges) the checkpoint transition is checked differentially: serialising leaves the Debug string unchanged, the restored object's Debug string and every accessor are bit-identical, and every continuation of up to two further operations stays bit-identical on both copies; states whose JSON contains a non-finite field (fresh Min/Max) are outside the statement and counted as trivial".into(),
        assumptions: {
            let mut a = common_assumptions();
            a.push("serde_json with float_roundtrip is a lossless format for finite f64 and u64/i64".into());
            a
        },
        checks,
    }
}
