//! C18 — a serde round trip at any point is invisible to the rest of the computation.

use super::chunky_impls::*;
use super::common::*;
use super::hist06::all_lists;
use super::interval::Chunky;
use super::{common_assumptions, Plan};
use crate::explore::{Spec, Violation};
use crate::report::Tier;
use crate::subjects::*;
use average::{Covariance, Kurtosis, Max, Mean, Min, Moments4, Skewness, Variance, WeightedMean, WeightedMeanWithError};
use serde_json::{json, Value};

#[derive(Clone, Debug, PartialEq)]
pub enum SOp<I> {
    Add(I),
    MergeCollected(Vec<I>),
    Checkpoint,
}

#[derive(Clone)]
pub struct SState<T: SerChunky> {
    e: Result<T, String>,
    /// violations detected while stepping (checkpoint oracle needs both objects)
    fault: Vec<(String, String)>,
    skipped_non_finite: bool,
}

pub struct SerSpec<T: SerChunky> {
    pub alpha_name: String,
    pub alpha: Vec<T::Item>,
    pub words: Vec<Vec<T::Item>>,
}

impl<T: SerChunky> SerSpec<T> {
    fn base_ops(&self) -> Vec<SOp<T::Item>> {
        let mut v: Vec<SOp<T::Item>> = self.alpha.iter().map(|i| SOp::Add(*i)).collect();
        if T::has_merge() {
            for w in &self.words {
                v.push(SOp::MergeCollected(w.clone()));
            }
        }
        v
    }
    fn apply(e: &T, op: &SOp<T::Item>) -> Result<T, String> {
        let mut e = e.clone();
        let op = op.clone();
        guarded(move || {
            match &op {
                SOp::Add(i) => e.add_item(*i),
                SOp::MergeCollected(w) => e.merge_(&T::collect(w)),
                SOp::Checkpoint => unreachable!(),
            }
            e
        })
    }
    fn same(a: &Result<T, String>, b: &Result<T, String>) -> Option<String> {
        match (a, b) {
            (Ok(a), Ok(b)) => {
                if a.dbg() != b.dbg() {
                    return Some(format!("state {} vs {}", a.dbg(), b.dbg()));
                }
                let (oa, ob) = (a.observe_(), b.observe_());
                if !oa.bits_eq(&ob) {
                    return Some(format!("statistics differ: {}", oa.first_diff(&ob)));
                }
                None
            }
            (Err(_), Err(_)) => None,
            (Ok(_), Err(m)) => Some(format!("restored copy panicked: {m}")),
            (Err(m), Ok(_)) => Some(format!("original panicked: {m}")),
        }
    }
}

impl<T: SerChunky> Spec for SerSpec<T> {
    type State = SState<T>;
    type Op = SOp<T::Item>;
    fn name(&self) -> String {
        format!("C18/serde/{}/{}", T::NAME, self.alpha_name)
    }
    fn init(&self) -> Vec<SState<T>> {
        vec![SState { e: Ok(T::fresh()), fault: vec![], skipped_non_finite: false }]
    }
    fn ops(&self, s: &SState<T>) -> Vec<Self::Op> {
        if s.e.is_err() {
            return vec![];
        }
        let mut v = self.base_ops();
        v.push(SOp::Checkpoint);
        v
    }
    fn step(&self, s: &SState<T>, op: &Self::Op) -> SState<T> {
        let e = s.e.as_ref().unwrap();
        match op {
            SOp::Checkpoint => {
                let before = e.dbg();
                let mut fault = Vec::new();
                let js = match guarded(|| e.to_json()) {
                    Err(m) => return SState { e: Ok(e.clone()), fault: vec![(format!("{}.serialize:panic", T::NAME), m)], skipped_non_finite: false },
                    Ok(Err(m)) => return SState { e: Ok(e.clone()), fault: vec![(format!("{}.serialize:error", T::NAME), format!("{before}: {m}"))], skipped_non_finite: false },
                    Ok(Ok(js)) => js,
                };
                if e.dbg() != before {
                    fault.push((format!("{}.serialize:modifies-estimator", T::NAME), format!("was {before}, is {}", e.dbg())));
                }
                if non_finite_fields(&before) {
                    // a non-finite field (serde_json writes it as null): outside the statement.
                    // Decided on the estimator's own fields (derived Debug), not on the JSON: a
                    // finite state that is *written* as null must still come back unchanged.
                    return SState { e: Ok(e.clone()), fault, skipped_non_finite: true };
                }
                let r = match guarded(|| T::from_json(&js)) {
                    Err(m) => return SState { e: Ok(e.clone()), fault: vec![(format!("{}.deserialize:panic", T::NAME), format!("{js}: {m}"))], skipped_non_finite: false },
                    Ok(Err(m)) => return SState { e: Ok(e.clone()), fault: vec![(format!("{}.deserialize:error", T::NAME), format!("{js}: {m}"))], skipped_non_finite: false },
                    Ok(Ok(r)) => r,
                };
                if let Some(d) = Self::same(&Ok(e.clone()), &Ok(r.clone())) {
                    fault.push((format!("{}.roundtrip:differs", T::NAME), format!("restored from {js}: {d}")));
                }
                // continuations of up to two further operations on both copies
                let ops = self.base_ops();
                'outer: for o1 in &ops {
                    let a1 = Self::apply(e, o1);
                    let b1 = Self::apply(&r, o1);
                    if let Some(d) = Self::same(&a1, &b1) {
                        fault.push((format!("{}.roundtrip:continuation-differs", T::NAME), format!("after restoring from {js} and then {o1:?}: {d}")));
                        break 'outer;
                    }
                    if let (Ok(a1), Ok(b1)) = (&a1, &b1) {
                        for o2 in &ops {
                            let a2 = Self::apply(a1, o2);
                            let b2 = Self::apply(b1, o2);
                            if let Some(d) = Self::same(&a2, &b2) {
                                fault.push((format!("{}.roundtrip:continuation-differs", T::NAME), format!("after restoring from {js} and then {o1:?}, {o2:?}: {d}")));
                                break 'outer;
                            }
                        }
                    }
                }
                SState { e: Ok(r), fault, skipped_non_finite: false }
            }
            _ => SState { e: Self::apply(e, op), fault: vec![], skipped_non_finite: false },
        }
    }
    fn key(&self, s: &SState<T>) -> String {
        match &s.e {
            Ok(e) => e.dbg(),
            Err(m) => format!("panic:{m}"),
        }
    }
    fn check(&self, _s: &SState<T>, _op: &Self::Op, t: &SState<T>) -> Vec<Violation> {
        let mut out: Vec<Violation> = t.fault.iter().map(|(s, d)| Violation { sig: s.clone(), detail: d.clone() }).collect();
        if let Err(m) = &t.e {
            out.push(Violation { sig: format!("{}.op:panic", T::NAME), detail: m.clone() });
        }
        out
    }
    fn outcome(&self, s: &SState<T>) -> String {
        match &s.e {
            Ok(e) => e.observe_().fingerprint(),
            Err(_) => "panic".into(),
        }
    }
    fn show_op(&self, op: &Self::Op) -> Value {
        match op {
            SOp::Add(i) => json!({"add": T::item_json(i)}),
            SOp::MergeCollected(w) => json!({"merge_collected": w.iter().map(|i| T::item_json(i)).collect::<Vec<_>>()}),
            SOp::Checkpoint => json!({"checkpoint": true}),
        }
    }
    fn nontrivial(&self, s: &SState<T>) -> bool {
        !s.skipped_non_finite
    }
}
impl<T: SerChunky> ReplaySpec for SerSpec<T> {
    fn parse_op(&self, v: &Value) -> Option<Self::Op> {
        if let Some(i) = v.get("add") {
            return Some(SOp::Add(T::item_parse(i)?));
        }
        if let Some(w) = v.get("merge_collected") {
            return Some(SOp::MergeCollected(w.as_array()?.iter().map(|i| T::item_parse(i)).collect::<Option<Vec<_>>>()?));
        }
        if v.get("checkpoint").is_some() {
            return Some(SOp::Checkpoint);
        }
        None
    }
}

fn words_of<I: Copy>(alpha: &[I]) -> Vec<Vec<I>> {
    let mut w: Vec<Vec<I>> = vec![vec![]];
    for a in alpha {
        w.push(vec![*a]);
    }
    for a in alpha {
        for b in alpha {
            w.push(vec![*a, *b]);
        }
    }
    w
}

fn ser<T: SerChunky>(name: &str, alpha: Vec<T::Item>, depth: usize) -> Box<dyn Check> {
    let words = words_of(&alpha);
    Box::new(Bfs::new(SerSpec::<T> { alpha_name: name.into(), alpha, words }, depth))
}

/// Long streams with a checkpoint at EVERY position: every word of length <= `max_word`
/// repeated to n; after each add the estimator is round-tripped, compared bit-for-bit
/// (Debug string and every accessor) with the uninterrupted one, and the computation then
/// continues on the RESTORED copy next to the uninterrupted one.
pub struct SerLasso<T: SerChunky> {
    pub alpha_name: String,
    pub alpha: Vec<T::Item>,
    pub max_word: usize,
    pub n: usize,
}
impl<T: SerChunky> SerLasso<T> {
    fn words(&self) -> Vec<Vec<T::Item>> {
        let idx: Vec<f64> = (0..self.alpha.len()).map(|i| i as f64).collect();
        let mut out = Vec::new();
        for l in 1..=self.max_word {
            for w in all_lists(&idx, l) {
                out.push(w.into_iter().map(|i| self.alpha[i as usize]).collect());
            }
        }
        out
    }
    fn run_word(&self, w: &[T::Item]) -> (u64, Vec<(Violation, usize)>) {
        let mut plain = T::fresh();
        let mut restored = T::fresh();
        let mut steps = 0u64;
        for k in 1..=self.n {
            let it = w[(k - 1) % w.len()];
            plain.add_item(it);
            restored.add_item(it);
            steps += 1;
            let js = match restored.to_json() {
                Ok(j) => j,
                Err(e) => return (steps, vec![(Violation { sig: format!("{}.serialize:error", T::NAME), detail: e }, k)]),
            };
            if non_finite_fields(&restored.dbg()) {
                continue;
            }
            let r = match guarded(|| T::from_json(&js)) {
                Ok(Ok(r)) => r,
                Ok(Err(e)) | Err(e) => return (steps, vec![(Violation { sig: format!("{}.deserialize:error", T::NAME), detail: format!("after {k} observations, {js}: {e}") }, k)]),
            };
            if r.dbg() != plain.dbg() || !r.observe_().bits_eq(&plain.observe_()) {
                return (
                    steps,
                    vec![(
                        Violation {
                            sig: format!("{}.roundtrip:diverges-from-uninterrupted", T::NAME),
                            detail: format!("checkpointing after every observation, after {k} observations the restored estimator is {} but the uninterrupted one is {}", r.dbg(), plain.dbg()),
                        },
                        k,
                    )],
                );
            }
            restored = r;
        }
        (steps, vec![])
    }
}
impl<T: SerChunky> Check for SerLasso<T> {
    fn name(&self) -> String {
        format!("C18/serde-every-position/{}/{}/w{}/n{}", T::NAME, self.alpha_name, self.max_word, self.n)
    }
    fn run(&self) -> crate::explore::Stats {
        use rayon::prelude::*;
        let t0 = std::time::Instant::now();
        let words = self.words();
        let mut st = crate::explore::Stats { spec: self.name(), depth_requested: self.n, depth_completed: self.n, ..Default::default() };
        let res: Vec<(u64, Vec<(Violation, usize)>)> = words.par_iter().map(|w| self.run_word(w)).collect();
        let mut found: std::collections::BTreeMap<String, crate::explore::Found> = Default::default();
        for (w, (steps, vs)) in words.iter().zip(res) {
            st.states += steps;
            st.transitions += 2 * steps;
            st.maximal += 1;
            for (v, k) in vs {
                let e = found.entry(v.sig.clone()).or_insert(crate::explore::Found { sig: v.sig, detail: v.detail, path: vec![json!({"word": w.iter().map(|i| T::item_json(i)).collect::<Vec<_>>()}), json!({"upto": k})], count: 0 });
                e.count += 1;
            }
        }
        st.nontrivial_states = st.states;
        st.outcomes = st.maximal;
        st.samples.push(json!({"spec": self.name(), "history": [{"word": words[words.len() / 2].iter().map(|i| T::item_json(i)).collect::<Vec<_>>()}, {"repeated_to": self.n}, "checkpoint after every add"]}));
        st.found = found.into_values().collect();
        st.wall_s = t0.elapsed().as_secs_f64();
        st
    }
    fn replay(&self, path: &[Value]) -> Result<Vec<Violation>, String> {
        let w: Vec<T::Item> = path.first().and_then(|v| v.get("word")).and_then(|w| w.as_array()).ok_or("no word")?.iter().map(|i| T::item_parse(i)).collect::<Option<Vec<_>>>().ok_or("bad word")?;
        Ok(self.run_word(&w).1.into_iter().map(|(v, _)| v).collect())
    }
}
/// States with very large counts, reachable by merges: collect(word) merged with a copy of
/// itself k times (len = |word|·2^k, k up to 61), one more observation added, then a
/// checkpoint; the restored copy and the original must agree bit-for-bit (len() included),
/// also after one further add on both.
pub struct SerDoubling<T: SerChunky> {
    pub alpha_name: String,
    pub alpha: Vec<T::Item>,
    pub max_k: u32,
}
impl<T: SerChunky> SerDoubling<T> {
    fn run_word(&self, w: &[T::Item]) -> (u64, Vec<(Violation, usize)>) {
        let mut e = T::collect(w);
        let mut steps = 0u64;
        for k in 1..=self.max_k {
            let c = e.clone();
            e.merge_(&c);
            steps += 1;
            let mut plain = e.clone();
            plain.add_item(w[0]);
            if non_finite_fields(&plain.dbg()) {
                continue;
            }
            let js = match plain.to_json() {
                Ok(j) => j,
                Err(m) => return (steps, vec![(Violation { sig: format!("{}.serialize:error", T::NAME), detail: m }, k as usize)]),
            };
            let mut r = match guarded(|| T::from_json(&js)) {
                Ok(Ok(r)) => r,
                Ok(Err(m)) | Err(m) => return (steps, vec![(Violation { sig: format!("{}.deserialize:error", T::NAME), detail: format!("after {k} doublings, {js}: {m}") }, k as usize)]),
            };
            let mut differs = r.dbg() != plain.dbg() || !r.observe_().bits_eq(&plain.observe_());
            if !differs {
                r.add_item(w[w.len() - 1]);
                plain.add_item(w[w.len() - 1]);
                differs = r.dbg() != plain.dbg() || !r.observe_().bits_eq(&plain.observe_());
            }
            if differs {
                return (
                    steps,
                    vec![(
                        Violation {
                            sig: format!("{}.roundtrip:differs:large-count", T::NAME),
                            detail: format!("{}: collect({:?}) doubled {k} times by merging with itself, then one add: restored from {js} it is {} but the original is {}", T::NAME, w, r.dbg(), plain.dbg()),
                        },
                        k as usize,
                    )],
                );
            }
        }
        (steps, vec![])
    }
}
impl<T: SerChunky> Check for SerDoubling<T> {
    fn name(&self) -> String {
        format!("C18/serde-large-counts/{}/{}/2^{}", T::NAME, self.alpha_name, self.max_k)
    }
    fn run(&self) -> crate::explore::Stats {
        let t0 = std::time::Instant::now();
        let mut words: Vec<Vec<T::Item>> = Vec::new();
        for a in &self.alpha {
            words.push(vec![*a]);
            for b in &self.alpha {
                words.push(vec![*a, *b]);
            }
        }
        let mut st = crate::explore::Stats { spec: self.name(), depth_requested: self.max_k as usize, depth_completed: self.max_k as usize, ..Default::default() };
        let mut found: std::collections::BTreeMap<String, crate::explore::Found> = Default::default();
        for w in &words {
            let (steps, vs) = self.run_word(w);
            st.states += steps;
            st.transitions += 4 * steps;
            st.maximal += 1;
            for (v, k) in vs {
                let e = found.entry(v.sig.clone()).or_insert(crate::explore::Found { sig: v.sig, detail: v.detail, path: vec![json!({"word": w.iter().map(|i| T::item_json(i)).collect::<Vec<_>>()}), json!({"upto": k})], count: 0 });
                e.count += 1;
            }
        }
        st.nontrivial_states = st.states;
        st.outcomes = st.maximal;
        st.samples.push(json!({"spec": self.name(), "history": [{"word": words[words.len() / 2].iter().map(|i| T::item_json(i)).collect::<Vec<_>>()}, {"doubled_by_self_merge_up_to": self.max_k}, "after each doubling: add, checkpoint, add"]}));
        st.found = found.into_values().collect();
        st.wall_s = t0.elapsed().as_secs_f64();
        st
    }
    fn replay(&self, path: &[Value]) -> Result<Vec<Violation>, String> {
        let w: Vec<T::Item> = path.first().and_then(|v| v.get("word")).and_then(|w| w.as_array()).ok_or("no word")?.iter().map(|i| T::item_parse(i)).collect::<Option<Vec<_>>>().ok_or("bad word")?;
        Ok(self.run_word(&w).1.into_iter().map(|(v, _)| v).collect())
    }
}
fn serd<T: SerChunky>(name: &str, alpha: Vec<T::Item>) -> Box<dyn Check> {
    Box::new(SerDoubling::<T> { alpha_name: name.into(), alpha, max_k: 61 })
}
/// does the derived Debug rendering of an estimator show a non-finite field?
fn non_finite_fields(dbg: &str) -> bool {
    // the tokens `inf` and `NaN` as f64's Debug prints them (not as part of an identifier)
    let b = dbg.as_bytes();
    let word = |i: usize, len: usize| {
        let before = i == 0 || !(b[i - 1].is_ascii_alphanumeric() || b[i - 1] == b'_');
        let after = i + len >= b.len() || !(b[i + len].is_ascii_alphanumeric() || b[i + len] == b'_');
        before && after
    };
    (0..b.len()).any(|i| (b[i..].starts_with(b"inf") && word(i, 3)) || (b[i..].starts_with(b"NaN") && word(i, 3)))
}
fn serl<T: SerChunky>(name: &str, alpha: Vec<T::Item>, max_word: usize, n: usize) -> Box<dyn Check> {
    Box::new(SerLasso::<T> { alpha_name: name.into(), alpha, max_word, n })
}

pub fn plan(tier: Tier) -> Plan {
    let q = tier == Tier::Quick;
    let d = if q { 4 } else { 6 };
    let mut checks: Vec<Box<dyn Check>> = Vec::new();
    let _ = all_lists(&[0.], 1);
    for a in ["tri", "off9", "dec", "zero3"] {
        let al = sub_alphabet(a, 3);
        checks.push(ser::<U<Mean>>(a, al.clone(), d));
        checks.push(ser::<U<Variance>>(a, al.clone(), d));
        checks.push(ser::<U<Skewness>>(a, al.clone(), d));
        checks.push(ser::<U<Kurtosis>>(a, al.clone(), d));
        checks.push(ser::<U<Moments4>>(a, al.clone(), d));
        checks.push(ser::<U<M6>>(a, al.clone(), d));
        checks.push(ser::<U<M10>>(a, al.clone(), d));
        checks.push(ser::<U<Min>>(a, al.clone(), d));
        checks.push(ser::<U<Max>>(a, al.clone(), d));
    }
    for a in ["tri", "qties"] {
        let al = sub_alphabet(a, 3);
        let dq = if q { 7 } else { 9 };
        checks.push(ser::<QP<0>>(a, al.clone(), dq));
        checks.push(ser::<QP<1>>(a, al.clone(), dq));
        checks.push(ser::<QP<2>>(a, al.clone(), dq));
        checks.push(ser::<QP<3>>(a, al.clone(), dq));
        checks.push(ser::<QP<4>>(a, al.clone(), dq));
        checks.push(ser::<QP<5>>(a, al.clone(), dq));
        checks.push(ser::<QP<6>>(a, al.clone(), dq));
        checks.push(ser::<QP<7>>(a, al.clone(), dq));
    }
    checks.push(cross(SerSpec::<U<Variance>> { alpha_name: "tri".into(), alpha: sub_alphabet("tri", 3), words: words_of(&sub_alphabet("tri", 3)) }, 4));
    checks.push(cross(SerSpec::<QP<4>> { alpha_name: "qties".into(), alpha: sub_alphabet("qties", 3), words: words_of(&sub_alphabet("qties", 3)) }, 7));
    // a checkpoint after every observation of long periodic streams
    let n = if q { 200 } else { 5000 };
    for a in ["tri", "qties", "dec"] {
        let al = sub_alphabet(a, 3);
        checks.push(serl::<QP<0>>(a, al.clone(), 3, n));
        checks.push(serl::<QP<1>>(a, al.clone(), 3, n));
        checks.push(serl::<QP<2>>(a, al.clone(), 3, n));
        checks.push(serl::<QP<3>>(a, al.clone(), 3, n));
        checks.push(serl::<QP<4>>(a, al.clone(), 3, n));
        checks.push(serl::<QP<5>>(a, al.clone(), 3, n));
        checks.push(serl::<QP<6>>(a, al.clone(), 3, n));
        checks.push(serl::<QP<7>>(a, al.clone(), 3, n));
        checks.push(serl::<U<Mean>>(a, al.clone(), 3, n));
        checks.push(serl::<U<Variance>>(a, al.clone(), 3, n));
        checks.push(serl::<U<Skewness>>(a, al.clone(), 3, n));
        checks.push(serl::<U<Kurtosis>>(a, al.clone(), 3, n));
        checks.push(serl::<U<Moments4>>(a, al.clone(), 3, n));
        checks.push(serl::<U<M10>>(a, al.clone(), 2, n));
    }
    checks.push(serl::<WeightedMeanWithError>("w3", vec![(-1., 0.), (0.1, 0.5), (3., 1e6)], 3, n));
    checks.push(serl::<Covariance>("corr3", vec![(1., 5.), (2., 4.1), (-3., 0.1)], 3, n));
    checks.push(serl::<HistChunk<average::Histogram10>>("samples", vec![0.5, 4.5, 9.5], 2, n));
    // counts beyond 2^53 (reachable by merges only)
    for a in ["tri", "dec"] {
        let al = sub_alphabet(a, 2);
        checks.push(serd::<U<Mean>>(a, al.clone()));
        checks.push(serd::<U<Variance>>(a, al.clone()));
        checks.push(serd::<U<Skewness>>(a, al.clone()));
        checks.push(serd::<U<Kurtosis>>(a, al.clone()));
        checks.push(serd::<U<Moments4>>(a, al.clone()));
    }
    checks.push(serd::<WeightedMeanWithError>("wdec", vec![(1., 0.1), (2., 0.2)]));
    checks.push(serd::<Covariance>("corr3", vec![(1., 5.), (2., 4.1)]));
    // weights that are not dyadic (their running sums round)
    let wdec = vec![(1., 0.1), (2., 0.2), (3., 0.3)];
    checks.push(ser::<WeightedMean>("wdec", wdec.clone(), d));
    checks.push(ser::<WeightedMeanWithError>("wdec", wdec.clone(), d));
    checks.push(serl::<WeightedMean>("wdec", wdec.clone(), 3, n));
    checks.push(serl::<WeightedMeanWithError>("wdec", wdec, 3, n));
    // odd numbers of bins
    checks.push(ser::<HistChunk<H1>>("samples", vec![-1., 0.5, 1.], d));
    checks.push(ser::<HistChunk<H3>>("samples", vec![0.5, 1.5, 2.5], d));
    let wp = vec![(-1., 0.), (0.1, 0.5), (3., 1e6)];
    checks.push(ser::<WeightedMean>("w3", wp.clone(), d));
    checks.push(ser::<WeightedMeanWithError>("w3", wp, d));
    checks.push(ser::<Covariance>("corr3", vec![(1., 5.), (2., 4.1), (-3., 0.1)], d));
    checks.push(ser::<Covariance>("off3", vec![(1e9 - 3., -1e6 + 0.5), (1e9 + 4., -1e6 - 2.), (1e9 + 13., -1e6)], d));
    checks.push(ser::<HistChunk<H2>>("samples", vec![0.5, 1.5, 7.], d));
    checks.push(ser::<HistChunk<average::Histogram10>>("samples", vec![0.5, 4.5, 9.5], d));
    checks.push(ser::<HistChunk<H100>>("samples", vec![0.5, 50.5, 99.5], if q { 3 } else { 4 }));
    // edge vectors with a repeated edge (a zero-width bin)
    checks.push(ser::<HistChunkRep<H2>>("repeated-edge", vec![0.5, 1.0, 1.5], d));
    checks.push(ser::<HistChunkRep<H4>>("repeated-edge", vec![0.5, 1.0, 3.5], d));
    checks.push(ser::<HistChunkRep<average::Histogram10>>("repeated-edge", vec![0.5, 1.0, 9.5], d));
    Plan {
        rule: "large counts: collect(w) for every word of length <= 2 merged with itself up to 61 times (len up to 2^62), after each doubling one add, a checkpoint, one more add, compared bit-for-bit; long periodic streams (every word of length <= 3 repeated to n = 200 / 5000) with a checkpoint after EVERY observation, the restored copy carried forward next to the uninterrupted one (Quantile at eight values of p incl. non-dyadic 0.2, 1/3, 0.9, 0.99); AND for every serialisable estimator type: BFS over add(x) (3-value alphabets), merge(collect(w)) for every word w of length <= 2, and checkpoint = serde_json (float_roundtrip) to_string -> from_str replacing the object; at EVERY reachable state (position 0, inside Quantile's <5 phase, between merges) the checkpoint transition is checked differentially: serialising leaves the Debug string unchanged, the restored object's Debug string and every accessor are bit-identical, and every continuation of up to two further operations stays bit-identical on both copies; states whose JSON contains a non-finite field (fresh Min/Max) are outside the statement and counted as trivial".into(),
        assumptions: {
            let mut a = common_assumptions();
            a.push("serde_json with float_roundtrip is a lossless format for finite f64 and u64/i64".into());
            a
        },
        checks,
    }
}
