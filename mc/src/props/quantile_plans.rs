//! Plans for C05, C07, C15 (all on the Quantile spec of quantile.rs).

use super::common::*;
use super::quantile::{pgrid, qcheck, Mode};
use super::{common_assumptions, Plan};
use crate::explore::{Found, Stats, Violation};
use crate::report::Tier;
use crate::subjects::guarded;
use serde_json::{json, Value};

pub fn plan05(tier: Tier) -> Plan {
    let mut checks: Vec<Box<dyn Check>> = Vec::new();
    let (dt, dd) = if tier == Tier::Quick { (10, 8) } else { (14, 11) };
    for p in pgrid() {
        checks.push(qcheck(Mode::C05, p, "qties", dt, 0.0));
    }
    if tier == Tier::Thorough {
        // a denser p grid at a smaller depth
        for p in super::quantile::pgrid_dense() {
            checks.push(qcheck(Mode::C05, p, "qties", 10, 0.0));
            checks.push(Box::new(QLasso { mode: Mode::C05, p, max_word: 3, n: 1000 }));
        }
    }
    for p in pgrid() {
        checks.push(qcheck(Mode::C05, p, "qdist", dd, 0.0));
    }
    if tier == Tier::Thorough {
        for p in [0., 0.1, 0.5, 0.9, 1.] {
            for trend in [0.5, -0.5] {
                checks.push(qcheck(Mode::C05, p, "qties", 9, trend));
            }
        }
    }
    // the tie-heavy alphabet scaled by 2^1021 (observations up to 6.7e307): P² evaluated
    // without overflow is the reference (see known_findings.txt)
    for p in [0.1, 0.25, 0.5, 0.75, 0.9] {
        checks.push(super::quantile::qcheck_scaled(Mode::C05, p, "qties", if tier == Tier::Quick { 9 } else { 11 }, 0.0, (2.0f64).powi(1021)));
    }
    let (mw, n) = if tier == Tier::Quick { (3, 1000) } else { (4, 10_000) };
    for p in pgrid() {
        checks.push(Box::new(QLasso { mode: Mode::C05, p, max_word: mw, n }));
    }
    for p in [0., 0.5, 0.9] {
        checks.push(cross(super::quantile::QSpec::new(Mode::C05, p, "qties"), if tier == Tier::Quick { 7 } else { 9 }));
    }
    let mut a = common_assumptions();
    a.push("the reference is the P² algorithm as printed in Jain & Chlamtac 1985 (refmodels/p2.rs), in the paper's expression order".into());
    Plan {
        rule: "long streams as a finite family: every word of length <= 3 (4) over {0,1,2,3} repeated to n = 300 (10^4) with linear trend c·t, c in {0, +0.5, -0.5} (sorted, reverse-sorted, zig-zag, saw-tooth, heavy-duplicate and trending streams), every step compared with the reference; AND for every p of the grid, every stream over the tie-heavy alphabet {0,1,2,3} and the distinct alphabet {-4,0,1,2.5,3,7} up to the depth bound; after each observation from the fifth the real quantile() and the serde-visible marker heights/positions are compared with the from-the-paper reference run on the same stream; states are (real marker state, reference state, ghost min/max) and non-trivial from the fifth observation on; AND the power-of-two scale family: the real estimator is fed letter·2^1021 over {0,1,2,3}, the reference the letter, reference heights multiplied by 2^1021 (P² evaluated without overflow; see known_findings.txt)".into(),
        assumptions: a,
        checks,
    }
}

pub fn plan07(tier: Tier) -> Plan {
    let mut checks: Vec<Box<dyn Check>> = Vec::new();
    let mut ps: Vec<f64> = vec![];
    for n in 1..=4u32 {
        for k in 0..=n {
            let b = k as f64 / n as f64;
            for c in [b, f64::from_bits(b.to_bits().wrapping_add(1)), if b > 0. { f64::from_bits(b.to_bits() - 1) } else { 0. }] {
                if (0. ..=1.).contains(&c) {
                    ps.push(c);
                }
            }
        }
    }
    ps.extend(pgrid());
    // p near (but more than a rounding away from) every k/n boundary
    for n in 1..=4u32 {
        for k in 1..=n {
            let b = k as f64 / n as f64;
            for d in [1e-15, 1e-13, 1e-11, 1e-9, 1e-6, 1e-3] {
                for c in [b - d, b + d] {
                    if (0. ..=1.).contains(&c) {
                        ps.push(c);
                    }
                }
            }
        }
    }
    if tier == Tier::Thorough {
        for k in 1..40 {
            ps.push(k as f64 / 40.0);
        }
    }
    ps.sort_by(|a, b| a.partial_cmp(b).unwrap());
    ps.dedup_by(|a, b| a.to_bits() == b.to_bits());
    for p in ps {
        checks.push(qcheck(Mode::C07, p, "q07", 4, 0.0));
    }
    for p in [0., 0.25, 1. / 3., 0.5, 0.75, 1.] {
        checks.push(qcheck(Mode::C07, p, "q07huge", 4, 0.0));
        checks.push(qcheck(Mode::C07, p, "qden", 4, 0.0));
    }
    for p in [0., 0.5, 1. / 3.] {
        checks.push(cross(super::quantile::QSpec::new(Mode::C07, p, "q07"), 4));
    }
    Plan {
        rule: "p over {0,1} U {k/n, k/n ± 1ulp : 1<=k<=n<=4} U pgrid; every sequence of length 1..4 over {-1,0,0.5,2,7} (every permutation of every multiset, duplicates included), and for six p over the near-overflow alphabet q07huge and the subnormal alphabet qden; quantile() after every add is compared with the exact sample quantile (n·p evaluated in integer arithmetic; an order statistic exactly, an average within two roundings and inside [a, b]); non-trivial states hold 1..4 observations".into(),
        assumptions: common_assumptions(),
        checks,
    }
}

pub fn plan15(tier: Tier) -> Plan {
    let mut checks: Vec<Box<dyn Check>> = Vec::new();
    checks.push(Box::new(CtorCheck));
    let (dt, dd) = if tier == Tier::Quick { (10, 8) } else { (14, 11) };
    for p in pgrid() {
        checks.push(qcheck(Mode::C15, p, "qties", dt, 0.0));
    }
    if tier == Tier::Thorough {
        for p in super::quantile::pgrid_dense() {
            checks.push(qcheck(Mode::C15, p, "qties", 10, 0.0));
            checks.push(Box::new(QLasso { mode: Mode::C15, p, max_word: 3, n: 1000 }));
        }
    }
    for p in pgrid() {
        checks.push(qcheck(Mode::C15, p, "qdist", dd, 0.0));
    }
    // finite observations whose span max - min overflows f64 (see known_findings.txt)
    for p in [0.25, 0.5] {
        checks.push(qcheck(Mode::C15, p, "qhuge", if tier == Tier::Quick { 8 } else { 10 }, 0.0));
    }
    // observations within a factor 8 of f64::MAX whose span does not overflow
    for p in [0.1, 0.25, 0.5, 0.75, 0.9] {
        checks.push(super::quantile::qcheck_scaled(Mode::C15, p, "qties", if tier == Tier::Quick { 9 } else { 11 }, 0.0, (2.0f64).powi(1021)));
    }
    // subnormal observations
    for p in [0., 0.25, 1. / 3., 0.5, 0.75, 1.] {
        checks.push(qcheck(Mode::C15, p, "qden", if tier == Tier::Quick { 7 } else { 9 }, 0.0));
    }
    for p in [0., 0.5, 1.] {
        checks.push(qcheck(Mode::C15, p, "const1", if tier == Tier::Quick { 40 } else { 400 }, 0.0));
    }
    if tier == Tier::Thorough {
        for p in [0., 0.1, 0.5, 0.9, 1.] {
            for trend in [0.5, -0.5] {
                checks.push(qcheck(Mode::C15, p, "qties", 9, trend));
            }
        }
    }
    let (mw, n) = if tier == Tier::Quick { (3, 1000) } else { (4, 10_000) };
    for p in pgrid() {
        checks.push(Box::new(QLasso { mode: Mode::C15, p, max_word: mw, n }));
    }
    for p in [0., 0.5, 0.9] {
        checks.push(cross(super::quantile::QSpec::new(Mode::C15, p, "qties"), if tier == Tier::Quick { 7 } else { 9 }));
    }
    Plan {
        rule: "the C05 stream families (bounded exhaustive and long lasso/trend streams) from the first observation on; invariants on every state: len/is_empty/p() read-back, quantile() NaN iff empty and otherwise within the ghost [min,max], from five observations on serialised heights non-decreasing with first = min and last = max; plus the alphabets qhuge (span overflows f64; known finding) and qden (subnormal observations), plus the constructor grid (panic iff p outside [0,1] or NaN)".into(),
        assumptions: common_assumptions(),
        checks,
    }
}

/// Quantile::new(p) panics exactly for p outside [0,1] (NaN included).
pub struct CtorCheck;
fn ctor_grid() -> Vec<f64> {
    let mut v = vec![f64::NEG_INFINITY, -1., -5e-324, -0.0, 0., 1., 1. + f64::EPSILON, 2., f64::INFINITY, f64::NAN, -f64::NAN, f64::MAX, f64::MIN, -1e-300];
    v.extend(pgrid());
    v
}
fn ctor_judge(p: f64) -> Option<Violation> {
    let r = guarded(|| average::Quantile::new(p));
    let valid = (0. ..=1.).contains(&p);
    match (valid, r) {
        (true, Ok(q)) => {
            let back = q.p();
            if back == p {
                None
            } else {
                Some(Violation { sig: "Quantile.new:p-readback".into(), detail: format!("new({p:?}).p() = {back:?}") })
            }
        }
        (true, Err(m)) => Some(Violation { sig: "Quantile.new:rejects-valid-p".into(), detail: format!("new({p:?}) panicked: {m}") }),
        (false, Ok(_)) => Some(Violation { sig: "Quantile.new:accepts-invalid-p".into(), detail: format!("new({p:?}) did not panic") }),
        (false, Err(_)) => None,
    }
}
impl Check for CtorCheck {
    fn name(&self) -> String {
        "C15/quantile-ctor".into()
    }
    fn run(&self) -> Stats {
        let mut st = Stats { spec: self.name(), depth_requested: 1, depth_completed: 1, closed: true, ..Default::default() };
        for p in ctor_grid() {
            st.states += 1;
            st.transitions += 1;
            st.maximal += 1;
            st.nontrivial_states += 1;
            if let Some(v) = ctor_judge(p) {
                st.found.push(Found { sig: v.sig, detail: v.detail, path: vec![json!({"new": fshow(p)})], count: 1 });
            }
            st.samples.push(json!({"spec": self.name(), "history": [{"new": fshow(p)}]}));
        }
        st.samples.truncate(3);
        st.outcomes = 2;
        st
    }
    fn replay(&self, path: &[Value]) -> Result<Vec<Violation>, String> {
        let p = path.first().and_then(|v| v.get("new")).and_then(fparse).ok_or("bad path")?;
        Ok(ctor_judge(p).into_iter().collect())
    }
}

// ---------------------------------------------------------------------------------------
// long streams: every word of length <= max_word over the tie-heavy alphabet, repeated to n,
// with a linear trend c·t (c in {0, +0.5, -0.5}): sorted, reverse-sorted, zig-zag, saw-tooth,
// heavy-duplicate and trending streams are all members of this finite family.

pub struct QLasso {
    pub mode: Mode,
    pub p: f64,
    pub max_word: usize,
    pub n: usize,
}
impl QLasso {
    fn run_word(&self, w: &[f64], trend: f64) -> (u64, Vec<(Violation, usize)>) {
        use super::quantile::QSpec;
        use crate::explore::Spec;
        let spec = QSpec::new(self.mode, self.p, "qties");
        let mut s = spec.init().pop().unwrap();
        let mut steps = 0u64;
        for k in 1..=self.n {
            let x = w[(k - 1) % w.len()] + trend * (k as f64);
            let t = spec.step(&s, &x);
            steps += 1;
            // the marker state is read through serde on the first 64 steps and every 16th after
            let vs = if k <= 64 || k % 16 == 0 || self.mode == Mode::C15 && k % 4 == 0 { spec.check(&s, &x, &t) } else { spec_quick(&spec, &t) };
            if !vs.is_empty() {
                return (steps, vs.into_iter().map(|v| (v, k)).collect());
            }
            s = t;
        }
        (steps, vec![])
    }
}
/// the cheap part of the oracle (no serde): estimate vs reference / range
#[allow(dead_code)]
fn spec_quick(spec: &super::quantile::QSpec, t: &super::quantile::QState) -> Vec<Violation> {
    let q = match &t.q {
        Ok(q) => q,
        Err(m) => return vec![Violation { sig: "Quantile.add:panic".into(), detail: m.clone() }],
    };
    let est = match guarded(|| q.quantile()) {
        Ok(e) => e,
        Err(m) => return vec![Violation { sig: "Quantile.quantile:panic".into(), detail: m }],
    };
    let mut out = Vec::new();
    if spec.mode == Mode::C05 {
        if let Some(r) = &t.reference {
            let tol = (t.gmax - t.gmin) * (2.0f64).powi(-40);
            if !((est - r.estimate()).abs() <= tol) {
                out.push(Violation { sig: "Quantile.quantile:differs-from-P2".into(), detail: format!("p = {:?}, after {} observations quantile() = {:?} but the P² middle marker is {:?}", spec.p, t.count, est, r.estimate()) });
            }
        }
    } else if !(t.gmin <= est && est <= t.gmax) {
        out.push(Violation { sig: "Quantile.quantile:out-of-range:p2".into(), detail: format!("p = {:?}: after {} observations quantile() = {:?} outside [{:?}, {:?}]", spec.p, t.count, est, t.gmin, t.gmax) });
    }
    out
}
impl Check for QLasso {
    fn name(&self) -> String {
        format!("{:?}/quantile-long/p={:016x}/w{}/n{}", self.mode, self.p.to_bits(), self.max_word, self.n)
    }
    fn run(&self) -> Stats {
        use rayon::prelude::*;
        let t0 = std::time::Instant::now();
        let alpha = alphabet("qties");
        let mut jobs: Vec<(Vec<f64>, f64)> = Vec::new();
        for l in 1..=self.max_word {
            for w in super::hist06::all_lists(&alpha, l) {
                for tr in [0.0, 0.5, -0.5] {
                    jobs.push((w.clone(), tr));
                }
            }
        }
        let mut st = Stats { spec: self.name(), depth_requested: self.n, depth_completed: self.n, ..Default::default() };
        let res: Vec<(u64, Vec<(Violation, usize)>)> = jobs.par_iter().map(|(w, tr)| self.run_word(w, *tr)).collect();
        let mut found: std::collections::BTreeMap<String, Found> = Default::default();
        for ((w, tr), (steps, vs)) in jobs.iter().zip(res) {
            st.states += steps;
            st.transitions += steps;
            st.maximal += 1;
            for (v, k) in vs {
                let sig = format!("{}:long-stream", v.sig);
                let e = found.entry(sig.clone()).or_insert(Found { sig, detail: format!("{} [word {:?} repeated with trend {} to {} observations]", v.detail, w, tr, k), path: vec![json!({"word": w.iter().map(|x| fshow(*x)).collect::<Vec<_>>()}), json!({"trend": tr}), json!({"upto": k})], count: 0 });
                e.count += 1;
            }
        }
        st.nontrivial_states = st.states;
        st.outcomes = st.maximal;
        let (w, tr) = &jobs[jobs.len() / 2];
        st.samples.push(json!({"spec": self.name(), "history": [{"word": format!("{w:?}")}, {"trend_per_step": tr}, {"repeated_to": self.n}]}));
        st.found = found.into_values().collect();
        st.wall_s = t0.elapsed().as_secs_f64();
        st
    }
    fn replay(&self, path: &[Value]) -> Result<Vec<Violation>, String> {
        let w: Vec<f64> = path.first().and_then(|v| v.get("word")).and_then(|w| w.as_array()).ok_or("no word")?.iter().map(fparse).collect::<Option<Vec<_>>>().ok_or("bad word")?;
        let tr = path.get(1).and_then(|v| v.get("trend")).and_then(|t| t.as_f64()).ok_or("no trend")?;
        Ok(self.run_word(&w, tr).1.into_iter().map(|(v, _)| v).collect())
    }
}
