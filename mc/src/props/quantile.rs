//! The Quantile spec shared by C05 (P² conformance), C07 (small-sample quantile) and C15
//! (range and bookkeeping invariants).  One real `Quantile` per state, next to the
//! from-the-paper reference and a ghost min/max/count.

use super::common::*;
use crate::explore::{Spec, Violation};
use crate::refmodels::p2::P2;
use crate::refmodels::smallq::small_quantile;
use crate::subjects::{guarded, quantile_markers};
use average::{Estimate, Quantile};
use serde_json::{json, Value};

/// how often the serialised marker state could not be read (marker clauses skipped)
pub static UNREADABLE: std::sync::atomic::AtomicU64 = std::sync::atomic::AtomicU64::new(0);

#[derive(Clone, Copy, PartialEq, Eq, Debug)]
pub enum Mode {
    C05,
    C07,
    C15,
    /// only: Estimate::estimate() is bit-for-bit quantile()
    C20,
}

#[derive(Clone)]
pub struct QState {
    pub q: Result<Quantile, String>,
    pub reference: Option<P2>,
    pub first: Vec<f64>, // the first (up to five) observations in arrival order
    pub count: u64,
    pub gmin: f64,
    pub gmax: f64,
}

pub struct QSpec {
    pub mode: Mode,
    pub p: f64,
    pub alpha_name: String,
    pub alpha: Vec<f64>,
    /// optional linear trend added to the letters: x_t = letter + trend·t (C05 thorough)
    pub trend: f64,
    /// a power of two (C05 only): the real estimator is fed letter·scale, the reference the
    /// letter itself, and the reference's answers are multiplied by scale.  Multiplying by a
    /// power of two commutes exactly with every P² operation unless something overflows or
    /// underflows, so this compares the implementation with P² evaluated without overflow.
    pub scale: f64,
}

impl QSpec {
    pub fn new(mode: Mode, p: f64, alpha_name: &str) -> QSpec {
        QSpec { mode, p, alpha_name: alpha_name.into(), alpha: alphabet(alpha_name), trend: 0.0, scale: 1.0 }
    }
    pub fn judge(&self, t: &QState) -> Vec<Violation> {
        let mut out = Vec::new();
        let q = match &t.q {
            Err(m) => {
                return vec![Violation { sig: "Quantile.add:panic".into(), detail: format!("Quantile::add panicked after {} observations: {m}", t.count) }];
            }
            Ok(q) => q,
        };
        let est = guarded(|| q.quantile());
        let est = match est {
            Err(m) => {
                return vec![Violation { sig: "Quantile.quantile:panic".into(), detail: format!("quantile() panicked with {} observations (p = {:?}): {m}", t.count, self.p) }];
            }
            Ok(e) => e,
        };
        match self.mode {
            Mode::C07 => {
                if t.count >= 1 && t.count <= 4 {
                    let want = small_quantile(self.p, &t.first);
                    let ok = est.is_finite()
                        && want.accept.iter().zip(want.bracket.iter()).any(|(w, (lo, hi))| {
                            // two roundings of the average, relative or (subnormal range) absolute
                            let tol = 2.0 * f64::EPSILON * w.abs() + 1e-323;
                            (est - w).abs() <= tol && *lo <= est && est <= *hi
                        });
                    if !ok {
                        let sorted = {
                            let mut s = t.first.clone();
                            s.sort_by(|a, b| a.partial_cmp(b).unwrap());
                            s
                        };
                        let arrival_sorted = t.first == sorted;
                        out.push(Violation {
                            sig: format!("Quantile.quantile:small-sample:{}", if arrival_sorted { "sorted-arrival" } else { "unsorted-arrival" }),
                            detail: format!(
                                "p = {:?}, observations (arrival order) {:?}: quantile() = {:?}, exact sample quantile {:?} formed from the order statistics {:?} ({})",
                                self.p, t.first, est, want.accept, want.bracket, want.note
                            ),
                        });
                    }
                    match guarded(|| q.len()) {
                        Ok(l) if l == t.count => {}
                        l => out.push(Violation { sig: "Quantile.len:wrong".into(), detail: format!("len() = {l:?}, expected {}", t.count) }),
                    }
                }
            }
            Mode::C05 => {
                if let Some(r) = &t.reference {
                    let span = t.gmax - t.gmin;
                    let tol = span * (2.0f64).powi(-40);
                    let sc = self.scale;
                    // input class of the scaled family: observations within a factor 8 of f64::MAX
                    let class = if sc != 1.0 { ":heights-near-f64-max" } else { "" };
                    let want = r.estimate() * sc;
                    if !((est - want).abs() <= tol) {
                        out.push(Violation {
                            sig: format!("Quantile.quantile:differs-from-P2{class}"),
                            detail: format!(
                                "p = {:?}, after {} observations quantile() = {:?} but the P² middle marker is {:?} (tolerance {:e}){}",
                                self.p,
                                t.count,
                                est,
                                want,
                                tol,
                                if sc != 1.0 { format!("; the reference ran on the stream divided by {sc:e} (a power of two) and its answer was multiplied back") } else { String::new() }
                            ),
                        });
                    }
                    match quantile_markers(q) {
                        Err(_) => {
                            UNREADABLE.fetch_add(1, std::sync::atomic::Ordering::Relaxed);
                        }
                        Ok(mk) => {
                            for i in 0..5 {
                                if mk.n[i] != r.n[i + 1] {
                                    let which = match i {
                                        0 => "minimum-marker",
                                        4 => "maximum-marker",
                                        _ => "interior-marker",
                                    };
                                    out.push(Violation {
                                        sig: format!("Quantile.positions:{which}{class}"),
                                        detail: format!(
                                            "p = {:?}, after {} observations marker positions are {:?} but P² prescribes {:?}",
                                            self.p,
                                            t.count,
                                            mk.n,
                                            &r.n[1..]
                                        ),
                                    });
                                    break;
                                }
                            }
                            for i in 0..5 {
                                if !((mk.q[i] - r.q[i + 1] * sc).abs() <= tol) {
                                    out.push(Violation {
                                        sig: format!("Quantile.heights:differ-from-P2{class}"),
                                        detail: format!(
                                            "p = {:?}, after {} observations marker heights are {:?} but P² prescribes {:?}{}",
                                            self.p,
                                            t.count,
                                            mk.q,
                                            &r.q[1..],
                                            if sc != 1.0 { format!(" times {sc:e}") } else { String::new() }
                                        ),
                                    });
                                    break;
                                }
                            }
                        }
                    }
                }
            }
            Mode::C20 => match guarded(|| q.estimate()) {
                Ok(e) if e.to_bits() == est.to_bits() || (e.is_nan() && est.is_nan()) => {}
                e => out.push(Violation { sig: "Quantile.estimate:differs-from-headline".into(), detail: format!("p = {:?}, after {} observations estimate() = {e:?} but quantile() = {est:?}", self.p, t.count) }),
            },
            Mode::C15 => {
                let before = out.len();
                self.judge_c15(t, q, est, &mut out);
                // streams whose span max - min is not representable (overflows f64): a distinct
                // input class with its own signatures
                if (t.gmax - t.gmin).is_infinite() {
                    for v in out[before..].iter_mut() {
                        v.sig = format!("{}:span-overflows-f64", v.sig);
                    }
                }
            }
        }
        out
    }

    fn judge_c15(&self, t: &QState, q: &Quantile, est: f64, out: &mut Vec<Violation>) {
        {
            {
                match guarded(|| q.len()) {
                    Ok(l) if l == t.count => {}
                    l => out.push(Violation { sig: "Quantile.len:wrong".into(), detail: format!("len() = {l:?}, expected {}", t.count) }),
                }
                match guarded(|| q.is_empty()) {
                    Ok(e) if e == (t.count == 0) => {}
                    e => out.push(Violation { sig: "Quantile.is_empty:wrong".into(), detail: format!("is_empty() = {e:?} with {} observations", t.count) }),
                }
                match guarded(|| q.p()) {
                    Ok(p) if p.to_bits() == self.p.to_bits() || (p == 0.0 && self.p == 0.0) => {}
                    p => out.push(Violation { sig: "Quantile.p:changed".into(), detail: format!("p() = {p:?}, constructed with {:?}", self.p) }),
                }
                match guarded(|| q.estimate()) {
                    Ok(e) if e.to_bits() == est.to_bits() || (e.is_nan() && est.is_nan()) => {}
                    e => out.push(Violation { sig: "Quantile.estimate:differs".into(), detail: format!("estimate() = {e:?}, quantile() = {est:?}") }),
                }
                if t.count == 0 {
                    if !est.is_nan() {
                        out.push(Violation { sig: "Quantile.quantile:empty-not-nan".into(), detail: format!("quantile() of the empty estimator = {est:?}") });
                    }
                } else if est.is_nan() {
                    out.push(Violation { sig: "Quantile.quantile:nan".into(), detail: format!("p = {:?}: quantile() is NaN after {} finite observations", self.p, t.count) });
                } else if !(t.gmin <= est && est <= t.gmax) {
                    out.push(Violation {
                        sig: format!("Quantile.quantile:out-of-range:{}", if t.count < 5 { "small-sample" } else { "p2" }),
                        detail: format!("p = {:?}: after {} observations quantile() = {:?} outside [{:?}, {:?}]", self.p, t.count, est, t.gmin, t.gmax),
                    });
                }
                if t.count >= 5 {
                    match quantile_markers(q) {
                        Err(_) => {
                            UNREADABLE.fetch_add(1, std::sync::atomic::Ordering::Relaxed);
                        }
                        Ok(mk) => {
                            if !(mk.q.windows(2).all(|w| w[0] <= w[1])) {
                                out.push(Violation {
                                    sig: "Quantile.heights:not-sorted".into(),
                                    detail: format!("p = {:?}: after {} observations marker heights {:?} are not non-decreasing", self.p, t.count, mk.q),
                                });
                            }
                            if mk.q[0] != t.gmin {
                                out.push(Violation {
                                    sig: "Quantile.heights:first-not-min".into(),
                                    detail: format!("after {} observations first marker {:?} != running minimum {:?}", t.count, mk.q[0], t.gmin),
                                });
                            }
                            if mk.q[4] != t.gmax {
                                out.push(Violation {
                                    sig: "Quantile.heights:last-not-max".into(),
                                    detail: format!("after {} observations last marker {:?} != running maximum {:?}", t.count, mk.q[4], t.gmax),
                                });
                            }
                        }
                    }
                }
            }
        }
    }
}

impl Spec for QSpec {
    type State = QState;
    type Op = f64;
    fn name(&self) -> String {
        format!(
            "{:?}/quantile/p={:016x}/{}{}{}",
            self.mode,
            self.p.to_bits(),
            self.alpha_name,
            if self.trend != 0.0 { format!("/trend={:?}", self.trend) } else { String::new() },
            if self.scale != 1.0 { format!("/scale={:e}", self.scale) } else { String::new() }
        )
    }
    fn init(&self) -> Vec<QState> {
        let p = self.p;
        vec![QState { q: guarded(move || Quantile::new(p)), reference: None, first: vec![], count: 0, gmin: f64::INFINITY, gmax: f64::NEG_INFINITY }]
    }
    fn check_init(&self, s: &QState) -> Vec<Violation> {
        self.judge(s)
    }
    fn ops(&self, s: &QState) -> Vec<f64> {
        if s.q.is_err() {
            return vec![];
        }
        let t = s.count as f64;
        self.alpha.iter().map(|a| (a + self.trend * t) * self.scale).collect()
    }
    fn step(&self, s: &QState, op: &f64) -> QState {
        let x = *op;
        let mut q = s.q.clone().unwrap();
        let q = guarded(move || {
            q.add(x);
            q
        });
        let mut first = s.first.clone();
        let mut reference = s.reference.clone();
        let count = s.count + 1;
        // what the reference sees (x itself unless this is the scaled C05 family)
        let letter = x / self.scale;
        if count <= 5 {
            first.push(letter);
            if count == 5 {
                reference = Some(P2::init(self.p, &first));
            }
        } else if let Some(r) = reference.as_mut() {
            r.observe(letter);
        }
        QState { q, reference, first, count, gmin: s.gmin.min(x), gmax: s.gmax.max(x) }
    }
    fn key(&self, s: &QState) -> String {
        let r = s.reference.as_ref().map(|r| r.key()).unwrap_or_default();
        match &s.q {
            Ok(q) => format!("{q:?}|{r}|{}|{:?}|{:?}", s.count, s.gmin, s.gmax),
            Err(m) => format!("panic:{m}|{r}|{}|{:?}", s.count, s.first),
        }
    }
    fn check(&self, _s: &QState, _op: &f64, t: &QState) -> Vec<Violation> {
        self.judge(t)
    }
    fn outcome(&self, s: &QState) -> String {
        match &s.q {
            Ok(q) => format!("{:?}", guarded(|| q.quantile().to_bits())),
            Err(_) => "panic".into(),
        }
    }
    fn show_op(&self, op: &f64) -> Value {
        json!({"add": fshow(*op)})
    }
    fn nontrivial(&self, s: &QState) -> bool {
        match self.mode {
            Mode::C07 => s.count >= 1 && s.count <= 4,
            Mode::C05 => s.count >= 5,
            Mode::C15 | Mode::C20 => true,
        }
    }
}
impl ReplaySpec for QSpec {
    fn parse_op(&self, v: &Value) -> Option<f64> {
        fparse(v.get("add")?)
    }
}

/// denser grid for the thorough tier
pub fn pgrid_dense() -> Vec<f64> {
    let mut v = pgrid();
    for k in 1..40 {
        v.push(k as f64 / 40.0);
    }
    v.extend([0.2, 0.3, 0.7, 1e-9, 1.0 - 1e-9]);
    v.sort_by(|a, b| a.partial_cmp(b).unwrap());
    v.dedup_by(|a, b| a.to_bits() == b.to_bits());
    v
}
pub fn pgrid() -> Vec<f64> {
    vec![0., 5e-324, 0.01, 0.1, 0.25, 1. / 3., 0.5, 0.75, 0.9, 0.99, 0.999, 1. - (2.0f64).powi(-53), 1.]
}

pub fn qcheck(mode: Mode, p: f64, alpha: &str, depth: usize, trend: f64) -> Box<dyn Check> {
    qcheck_scaled(mode, p, alpha, depth, trend, 1.0)
}
pub fn qcheck_scaled(mode: Mode, p: f64, alpha: &str, depth: usize, trend: f64, scale: f64) -> Box<dyn Check> {
    let mut spec = QSpec::new(mode, p, alpha);
    spec.trend = trend;
    spec.scale = scale;
    let mut b = Bfs::new(spec, depth);
    b.extra = Box::new(|| json!({"marker_state_unreadable_so_marker_clauses_skipped": UNREADABLE.load(std::sync::atomic::Ordering::Relaxed)}));
    Box::new(b)
}
