//! One module per property: alphabet, bound, oracle.

pub mod common;
pub mod c01;
pub mod c02;
pub mod c03_c04;
pub mod c08;
pub mod c09;
pub mod chunky_impls;
pub mod interval;
pub mod longrun;
pub mod c10;
pub mod c11;
pub mod c14;
pub mod c16;
pub mod c17;
pub mod c18;
pub mod c19;
pub mod c20;
pub mod hist06;
pub mod hist12;
pub mod hist13;
pub mod quantile;
pub mod quantile_plans;

use crate::report::Tier;
use common::Check;

pub struct Plan {
    pub rule: String,
    pub assumptions: Vec<String>,
    pub checks: Vec<Box<dyn Check>>,
}

pub fn plan(prop: &str, tier: Tier) -> Option<Plan> {
    match prop {
        "C01" => Some(c01::plan(tier)),
        "C02" => Some(c02::plan(tier)),
        "C03" => Some(c03_c04::plan03(tier)),
        "C04" => Some(c03_c04::plan04(tier)),
        "C05" => Some(quantile_plans::plan05(tier)),
        "C06" => Some(hist06::plan(tier)),
        "C07" => Some(quantile_plans::plan07(tier)),
        "C08" => Some(c08::plan(tier)),
        "C09" => Some(c09::plan(tier)),
        "C10" => Some(c10::plan(tier)),
        "C11" => Some(c11::plan(tier)),
        "C12" => Some(hist12::plan(tier)),
        "C13" => Some(hist13::plan(tier)),
        "C14" => Some(c14::plan(tier)),
        "C15" => Some(quantile_plans::plan15(tier)),
        "C16" => Some(c16::plan(tier)),
        "C17" => Some(c17::plan(tier)),
        "C18" => Some(c18::plan(tier)),
        "C20" => Some(c20::plan(tier)),
        "C19" => Some(c19::plan(tier)),
        "C15x" => Some(quantile_plans::plan15(tier)),
        _ => None,
    }
}

pub fn common_assumptions() -> Vec<String> {
    vec![
        "values outside the named alphabets and histories beyond the stated depth are not covered".into(),
        "the exact oracle (own big-integer arithmetic, cross-checked against Python fractions by `avgmc --selftest`) is correct".into(),
        "rustc/LLVM compile the engine's release profile (debug-assertions and overflow-checks on) with the same IEEE-754 semantics as the repository's test profile".into(),
    ]
}
