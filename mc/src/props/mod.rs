//! One module per property: alphabet, bound, oracle.

pub mod common;
pub mod c01;

use crate::report::Tier;
use common::Check;

pub struct Plan {
    pub rule: String,
    pub assumptions: Vec<String>,
    pub checks: Vec<Box<dyn Check>>,
}

pub fn plan(prop: &str, tier: Tier) -> Option<Plan> {
    match prop {
        "C01" => Some(c01::plan(tier)),
        _ => None,
    }
}

pub fn common_assumptions() -> Vec<String> {
    vec![
        "values outside the named alphabets and histories beyond the stated depth are not covered".into(),
        "the exact oracle (own big-integer arithmetic, cross-checked against Python fractions by `avgmc --selftest`) is correct".into(),
        "rustc/LLVM compile the engine's release profile (debug-assertions and overflow-checks on) with the same IEEE-754 semantics as the repository's test profile".into(),
    ]
}
