//! C17 — variances are never negative and means stay within the data range (no restriction
//! on the conditioning of the data).

use super::chunky_impls::U;
use super::common::*;
use super::hist06::nondecreasing;
use super::interval::{ChunkAddSpec, Chunky, IntervalCheck, Judge};
use super::{common_assumptions, Plan};
use crate::envelope::U as UNIT;
use crate::explore::{Found, Stats, Violation};
use crate::report::Tier;
use crate::subjects::*;
use average::{Covariance, Kurtosis, Mean, Moments4, Skewness, Variance, WeightedMean, WeightedMeanWithError};
use serde_json::{json, Value};

fn is_variance(s: Stat) -> bool {
    matches!(s, Stat::PopVar | Stat::SampleVar | Stat::VarOfMean | Stat::Error | Stat::Central(2) | Stat::PopVarX | Stat::PopVarY | Stat::SampleVarX | Stat::SampleVarY | Stat::VarOfWMean | Stat::WError)
}
fn min_n(s: Stat) -> usize {
    match s {
        Stat::SampleVar | Stat::SampleVarX | Stat::SampleVarY | Stat::VarOfWMean | Stat::WError => 2,
        _ => 1,
    }
}

fn range_check(tname: &str, stat: Stat, v: &Val, xs: &[f64], out: &mut Vec<Violation>) {
    if xs.is_empty() {
        return;
    }
    let n = xs.len() as f64;
    let m = xs.iter().fold(0.0f64, |a, x| a.max(x.abs()));
    let lo = xs.iter().cloned().fold(f64::INFINITY, f64::min);
    let hi = xs.iter().cloned().fold(f64::NEG_INFINITY, f64::max);
    // (floor: two spacings of the subnormal grid, where "up to rounding" is absolute)
    let t = (8.0 * n * UNIT * m).max(1e-323);
    match v {
        Val::F(g) if *g >= lo - t && *g <= hi + t => {}
        _ => out.push(Violation {
            sig: format!("{tname}.{}:outside-data-range", stat.name()),
            detail: format!("{tname}::{} = {} is outside [{lo:?}, {hi:?}] ± {t:e} for the observations {xs:?}", stat.name(), v.show()),
        }),
    }
}

fn sign_check(tname: &str, stat: Stat, v: &Val, n: usize, ctx: &dyn Fn() -> String, out: &mut Vec<Violation>) {
    if n < min_n(stat) {
        return;
    }
    match v {
        Val::F(g) if *g >= 0.0 => {}
        Val::F(g) if g.is_nan() => out.push(Violation { sig: format!("{tname}.{}:nan", stat.name()), detail: format!("{tname}::{} is NaN for {}", stat.name(), ctx()) }),
        _ => out.push(Violation { sig: format!("{tname}.{}:negative", stat.name()), detail: format!("{tname}::{} = {} < 0 for {}", stat.name(), v.show(), ctx()) }),
    }
}

/// a variance-type quantity is at most sum (x - mean)^2 <= n·(max - min)^2; where that bound is
/// far below f64::MAX the quantity is a real number, so not +inf either
fn finite_check(tname: &str, stat: Stat, v: &Val, xs: &[f64], ctx: &dyn Fn() -> String, out: &mut Vec<Violation>) {
    if xs.len() < min_n(stat) {
        return;
    }
    let lo = xs.iter().cloned().fold(f64::INFINITY, f64::min);
    let hi = xs.iter().cloned().fold(f64::NEG_INFINITY, f64::max);
    let bound = xs.len() as f64 * (hi - lo) * (hi - lo);
    if let Val::F(g) = v {
        if g.is_infinite() && bound < 1e306 {
            out.push(Violation {
                sig: format!("{tname}.{}:infinite", stat.name()),
                detail: format!("{tname}::{} = {g:?} for {}, but it is at most n·(max - min)^2 = {bound:e}", stat.name(), ctx()),
            });
        }
    }
}

fn uni_judge<T: Chunky<Item = f64>>() -> Judge<T> {
    Box::new(|items: &[f64], obs: &Obs| {
        let mut out = Vec::new();
        for (s, v) in &obs.vals {
            if is_variance(*s) {
                sign_check(T::NAME, *s, v, items.len(), &|| format!("{items:?}"), &mut out);
                finite_check(T::NAME, *s, v, items, &|| format!("{items:?}"), &mut out);
            }
            if *s == Stat::Mean {
                range_check(T::NAME, *s, v, items, &mut out);
            }
        }
        out
    })
}

fn cov_judge() -> Judge<Covariance> {
    Box::new(|items: &[(f64, f64)], obs: &Obs| {
        let mut out = Vec::new();
        let xs: Vec<f64> = items.iter().map(|p| p.0).collect();
        let ys: Vec<f64> = items.iter().map(|p| p.1).collect();
        for (s, v) in &obs.vals {
            if is_variance(*s) {
                sign_check("Covariance", *s, v, items.len(), &|| format!("{items:?}"), &mut out);
                let coord = if matches!(s, Stat::PopVarY | Stat::SampleVarY) { &ys } else { &xs };
                finite_check("Covariance", *s, v, coord, &|| format!("{items:?}"), &mut out);
            }
            if *s == Stat::MeanX {
                range_check("Covariance", *s, v, &xs, &mut out);
            }
            if *s == Stat::MeanY {
                range_check("Covariance", *s, v, &ys, &mut out);
            }
        }
        out
    })
}

fn weighted_judge<T: Chunky<Item = (f64, f64)>>() -> Judge<T> {
    Box::new(|items: &[(f64, f64)], obs: &Obs| {
        let mut out = Vec::new();
        let xs: Vec<f64> = items.iter().map(|p| p.0).collect();
        let contributing: Vec<f64> = items.iter().filter(|p| p.1 > 0.0).map(|p| p.0).collect();
        let wsum: f64 = items.iter().map(|p| p.1).sum();
        let n = items.len();
        for (s, v) in &obs.vals {
            match s {
                Stat::PopVar | Stat::SampleVar => {
                    sign_check(T::NAME, *s, v, n, &|| format!("{items:?}"), &mut out);
                    finite_check(T::NAME, *s, v, &xs, &|| format!("{items:?}"), &mut out);
                }
                Stat::VarOfWMean | Stat::WError if wsum > 0.0 => sign_check(T::NAME, *s, v, n, &|| format!("{items:?}"), &mut out),
                Stat::UnweightedMean => range_check(T::NAME, *s, v, &xs, &mut out),
                Stat::WMean if wsum > 0.0 => {
                    // tolerance from max|x| over all observations
                    let before = out.len();
                    range_check(T::NAME, *s, v, &contributing, &mut out);
                    if out.len() > before {
                        // retry with the wider tolerance C·n·u·max|x| over all observations
                        out.truncate(before);
                        let m = xs.iter().fold(0.0f64, |a, x| a.max(x.abs()));
                        let t = (8.0 * n as f64 * UNIT * m).max(1e-323);
                        let lo = contributing.iter().cloned().fold(f64::INFINITY, f64::min);
                        let hi = contributing.iter().cloned().fold(f64::NEG_INFINITY, f64::max);
                        match v {
                            Val::F(g) if *g >= lo - t && *g <= hi + t => {}
                            _ => out.push(Violation {
                                // input class of its own: the products weight_sum·average of a merge
                                // fall into the subnormal range (see known_findings.txt)
                                sig: format!("{}.weighted_mean:outside-data-range{}", T::NAME, {
                                    let minw = items.iter().filter(|p| p.1 > 0.0).map(|p| p.1).fold(f64::INFINITY, f64::min);
                                    if m * minw < 2e-292 { ":weight-times-value-underflows" } else { "" }
                                }),
                                detail: format!("{}::weighted_mean = {} outside [{lo:?}, {hi:?}] ± {t:e} for {items:?}", T::NAME, v.show()),
                            }),
                        }
                    }
                }
                Stat::EffLen if wsum > 0.0 => {
                    let slack = n as f64 * (2.0f64).powi(-50);
                    match v {
                        Val::F(g) if *g >= 1.0 - slack && *g <= n as f64 * (1.0 + slack) => {}
                        _ => out.push(Violation {
                            sig: format!("{}.effective_len:outside-1-len", T::NAME),
                            detail: format!("{}::effective_len = {} outside [1, {n}] for {items:?}", T::NAME, v.show()),
                        }),
                    }
                }
                _ => {}
            }
        }
        out
    })
}

fn add<T: Chunky>(alpha_name: &str, alpha: Vec<T::Item>, depth: usize, judge: Judge<T>) -> Box<dyn Check> {
    Box::new(Bfs::new(ChunkAddSpec::<T> { prop: "C17", alpha_name: alpha_name.into(), alpha, judge }, depth))
}
fn trees<T: Chunky>(alpha_name: &str, alpha: Vec<T::Item>, max_len: usize, judge: Judge<T>) -> Box<dyn Check> {
    Box::new(IntervalCheck::<T> { prop: "C17", alpha_name: alpha_name.into(), alpha, max_len, cap_per_word: word_cap(), judge, extra: Box::new(|| Value::Null) })
}

fn uni<T: Chunky<Item = f64>>(checks: &mut Vec<Box<dyn Check>>, q: bool) {
    for a in ["ill", "ulp", "den", "huge", "off11", "mixed"] {
        let alpha = alphabet(a);
        let k = alpha.len();
        checks.push(add::<T>(a, alpha.clone(), if q { 6 } else { 8 }, uni_judge::<T>()));
        let mut sub = alpha;
        sub.truncate(4);
        let _ = k;
        checks.push(trees::<T>(a, sub, if q { 5 } else { 6 }, uni_judge::<T>()));
    }
}

fn pairs(name: &str) -> Vec<(f64, f64)> {
    match name {
        "ill-pairs" => vec![(1e15 - 1., -1e15), (1e15, -1e15 + 2.), (1e15 + 1., -1e15 + 1.), (1e15 + 2., -1e15)],
        "ulp-pairs" => vec![(1. - UNIT, 1.), (1., 1. + 2. * UNIT), (1. + 2. * UNIT, 1. - UNIT), (1. + 4. * UNIT, 1.)],
        "huge-pairs" => vec![(1e150, -1e150), (-1e150, 1.), (1., 1e-150), (1e-150, 1e150)],
        "den-pairs" => vec![(0., 5e-324), (5e-324, 1e-310), (-1e-310, 0.), (2.3e-308, -1e-310)],
        "ill-weights" => vec![(1e15 - 1., 0.), (1e15, 1e-6), (1e15 + 1., 1.), (1e15 + 2., 1e6), (1e15 - 1., 3.)],
        "ulp-weights" => vec![(1. - UNIT, 1e6), (1., 0.), (1. + 2. * UNIT, 1e-6), (1. + 4. * UNIT, 0.5)],
        "huge-weights" => vec![(1e150, 1e-6), (-1e150, 1e6), (1., 0.), (1e-150, 1.)],
        // weights far below 1 (their sum stays below f64::EPSILON for a while)
        "small-weights" => vec![(6., 1e-16), (5., 1e-17), (7., 3e-17), (1., 0.), (2., 1.)],
        // subnormal and barely normal observations with fractional weights
        "den-weights" => vec![(5e-324, 0.25), (2.5e-308, 1e-6), (1e-320, 1e-6), (2e-320, 1e-6), (2.5e-308, 0.)],
        _ => panic!(),
    }
}

/// Histogram bin variances: every count vector of total 1..=max_total for LEN 1..=4.
pub struct HistVar<H: Hist> {
    max_total: u64,
    _h: std::marker::PhantomData<H>,
}
fn judge_hist_var<H: Hist>(counts: &[u64]) -> Vec<Violation> {
    let mut out = Vec::new();
    let mut h = H::from_ranges_((0..=H::LEN).map(|i| i as f64).collect()).unwrap();
    for (i, c) in counts.iter().enumerate() {
        for _ in 0..*c {
            let _ = h.add_(i as f64 + 0.5);
        }
    }
    let total: u64 = counts.iter().sum();
    let hi = total as f64 / 4.0;
    let tol = 4.0 * f64::EPSILON * total as f64;
    let vs = h.variances_();
    for i in 0..H::LEN {
        for (what, v) in [("variance", guarded(|| h.variance_(i))), ("variances", Ok(vs[i]))] {
            match v {
                Ok(v) if v >= -tol && v <= hi + tol => {}
                v => out.push(Violation {
                    sig: format!("hist.{what}:outside-0-total/4"),
                    detail: format!("{}: bins {counts:?}: {what}({i}) = {v:?} outside [0, {hi}]", H::NAME),
                }),
            }
        }
    }
    out
}
impl<H: Hist> Check for HistVar<H> {
    fn name(&self) -> String {
        format!("C17/hist-variance/{}", H::NAME)
    }
    fn run(&self) -> Stats {
        let t0 = std::time::Instant::now();
        let mut st = Stats { spec: self.name(), depth_requested: self.max_total as usize, depth_completed: self.max_total as usize, closed: true, ..Default::default() };
        let lattice: Vec<f64> = (0..=self.max_total).map(|i| i as f64).collect();
        let mut found: std::collections::BTreeMap<String, Found> = Default::default();
        // all count vectors via all lists over 0..=max_total with total in 1..=max_total
        let vecs: Vec<Vec<u64>> = super::hist06::all_lists(&lattice, H::LEN).into_iter().map(|v| v.into_iter().map(|x| x as u64).collect::<Vec<u64>>()).filter(|v| { let t: u64 = v.iter().sum(); t >= 1 && t <= self.max_total }).collect();
        let _ = nondecreasing(&[0.], 1);
        for c in &vecs {
            st.states += 1;
            st.transitions += c.iter().sum::<u64>() + 2 * H::LEN as u64;
            for v in judge_hist_var::<H>(c) {
                let e = found.entry(v.sig.clone()).or_insert(Found { sig: v.sig, detail: v.detail, path: vec![json!({"counts": c})], count: 0 });
                e.count += 1;
            }
        }
        st.maximal = st.states;
        st.nontrivial_states = st.states;
        st.outcomes = st.states;
        st.samples.push(json!({"spec": self.name(), "history": [{"counts": vecs[vecs.len() / 2]}]}));
        st.found = found.into_values().collect();
        st.wall_s = t0.elapsed().as_secs_f64();
        st
    }
    fn replay(&self, path: &[Value]) -> Result<Vec<Violation>, String> {
        let c: Vec<u64> = path.first().and_then(|v| v.get("counts")).and_then(|c| c.as_array()).ok_or("bad path")?.iter().filter_map(|x| x.as_u64()).collect();
        Ok(judge_hist_var::<H>(&c))
    }
}

/// Merges of constant runs whose values are adjacent floating-point numbers: the merged mean
/// can round a fraction of an ulp outside the two run means, which is where an
/// algebraically equivalent but unsafe cross term goes negative.  Exhaustive over base values
/// x run lengths x neighbour distance x both merge directions, plus three-run nestings.
pub struct RunMerge<T: Chunky<Item = f64>> {
    pub max_run: usize,
    pub judge: Judge<T>,
}
fn bases() -> Vec<f64> {
    vec![0.1, 0.3, 1. / 3., 0.7, 1e15 + 3., 1e9 + 0.7, -2.6e-7, 1.1e150, 3e-310]
}
fn up(x: f64, k: u32) -> f64 {
    let mut y = x;
    for _ in 0..k {
        y = crate::refmodels::hist::next_up(y);
    }
    y
}
impl<T: Chunky<Item = f64>> RunMerge<T> {
    fn eval(&self, runs: &[(f64, usize)], nest_left: bool) -> Result<(T, Vec<f64>), String> {
        let parts: Vec<T> = runs.iter().map(|(x, n)| T::collect(&vec![*x; *n])).collect();
        let all: Vec<f64> = runs.iter().flat_map(|(x, n)| vec![*x; *n]).collect();
        let parts2 = parts.clone();
        let r = guarded(move || {
            let mut it = parts2.into_iter();
            if nest_left {
                let mut acc = it.next().unwrap();
                for p in it {
                    acc.merge_(&p);
                }
                acc
            } else {
                let v: Vec<T> = it.collect();
                let mut acc = v.last().unwrap().clone();
                for p in v[..v.len() - 1].iter().rev() {
                    let mut q = p.clone();
                    q.merge_(&acc);
                    acc = q;
                }
                acc
            }
        })?;
        Ok((r, all))
    }
    fn cases(&self) -> Vec<(Vec<(f64, usize)>, bool)> {
        let mut v = Vec::new();
        for b in bases() {
            for d in [1u32, 2, 3, 0] {
                // d = 0: a far value (the runs are then well separated: a mean that leaves the
                // data range by extrapolation shows here, not between neighbours)
                let c = if d == 0 { b + (b.abs() * 0.25).max(1.0).min(1e300) } else { up(b, d) };
                for na in 1..=self.max_run {
                    for nb in 1..=self.max_run {
                        v.push((vec![(b, na), (c, nb)], true));
                        v.push((vec![(c, nb), (b, na)], true));
                    }
                }
                for na in 1..=self.max_run.min(5) {
                    for nb in 1..=self.max_run.min(5) {
                        for nc in 1..=self.max_run.min(5) {
                            for nest in [true, false] {
                                v.push((vec![(b, na), (c, nb), (b, nc)], nest));
                                v.push((vec![(b, na), (c, nb), (up(c, d.max(1)), nc)], nest));
                            }
                        }
                    }
                }
            }
        }
        v
    }
}
impl<T: Chunky<Item = f64>> Check for RunMerge<T> {
    fn name(&self) -> String {
        format!("C17/adjacent-run-merges/{}/runs<={}", T::NAME, self.max_run)
    }
    fn run(&self) -> Stats {
        use rayon::prelude::*;
        let t0 = std::time::Instant::now();
        let cases = self.cases();
        let mut st = Stats { spec: self.name(), depth_requested: self.max_run, depth_completed: self.max_run, ..Default::default() };
        let res: Vec<Vec<Violation>> = cases
            .par_iter()
            .map(|(runs, nest)| match self.eval(runs, *nest) {
                Err(m) => vec![Violation { sig: format!("{}.merge:panic", T::NAME), detail: m }],
                Ok((e, all)) => (self.judge)(&all, &e.observe_()),
            })
            .collect();
        let mut found: std::collections::BTreeMap<String, Found> = Default::default();
        for ((runs, nest), vs) in cases.iter().zip(res) {
            st.states += 1;
            st.transitions += runs.len() as u64 * 2 - 1;
            for v in vs {
                let sig = format!("{}:adjacent-runs", v.sig);
                let path = vec![json!({"runs": runs.iter().map(|(x, n)| json!([fshow(*x), n])).collect::<Vec<_>>()}), json!({"left_nested": nest})];
                let e = found.entry(sig.clone()).or_insert(Found { sig, detail: format!("{} [runs {:?}, left-nested {}]", v.detail.chars().take(300).collect::<String>(), runs, nest), path, count: 0 });
                e.count += 1;
            }
        }
        st.maximal = st.states;
        st.nontrivial_states = st.states;
        st.outcomes = st.states;
        let (r, n) = &cases[cases.len() / 2];
        st.samples.push(json!({"spec": self.name(), "history": [{"runs": format!("{r:?}")}, {"left_nested": n}]}));
        st.found = found.into_values().collect();
        st.wall_s = t0.elapsed().as_secs_f64();
        st
    }
    fn replay(&self, path: &[Value]) -> Result<Vec<Violation>, String> {
        let runs: Vec<(f64, usize)> = path
            .first()
            .and_then(|v| v.get("runs"))
            .and_then(|r| r.as_array())
            .ok_or("no runs")?
            .iter()
            .map(|p| Some((fparse(p.get(0)?)?, p.get(1)?.as_u64()? as usize)))
            .collect::<Option<Vec<_>>>()
            .ok_or("bad runs")?;
        let nest = path.get(1).and_then(|v| v.get("left_nested")).and_then(|b| b.as_bool()).unwrap_or(true);
        match self.eval(&runs, nest) {
            Err(m) => Ok(vec![Violation { sig: format!("{}.merge:panic", T::NAME), detail: m }]),
            Ok((e, all)) => Ok((self.judge)(&all, &e.observe_())),
        }
    }
}
fn runs<T: Chunky<Item = f64>>(max_run: usize) -> Box<dyn Check> {
    Box::new(RunMerge::<T> { max_run, judge: uni_judge::<T>() })
}

// ---------------------------------------------------------------------------------------
// merges of LONG constant runs of far-apart values (|x| up to 1e150, runs up to 10^5): the
// cross term of a merge, delta^2·n_a·n_b/n, is formed from factors whose partial products are
// far larger than the term itself
// ---------------------------------------------------------------------------------------

pub struct LargeRunMerge<T: Chunky> {
    pub lens: Vec<usize>,
    pub lift: fn(f64) -> T::Item,
    /// the second coordinate / weight the lift attaches, for the report only
    pub lift_note: &'static str,
}
const LARGE_VALUES: [f64; 3] = [-1e150, 1e150, 1.0];
impl<T: Chunky> LargeRunMerge<T> {
    fn part(&self, x: f64, n: usize) -> T {
        T::collect(&vec![(self.lift)(x); n])
    }
    fn eval(&self, runs: &[(f64, usize)], nest_left: bool, cache: Option<&std::collections::HashMap<(u64, usize), T>>) -> Result<T, String> {
        let parts: Vec<T> = runs
            .iter()
            .map(|(x, n)| match cache.and_then(|c| c.get(&(x.to_bits(), *n))) {
                Some(t) => t.clone(),
                None => self.part(*x, *n),
            })
            .collect();
        guarded(move || {
            if nest_left {
                let mut it = parts.into_iter();
                let mut acc = it.next().unwrap();
                for p in it {
                    acc.merge_(&p);
                }
                acc
            } else {
                let mut acc = parts.last().unwrap().clone();
                for p in parts[..parts.len() - 1].iter().rev() {
                    let mut q = p.clone();
                    q.merge_(&acc);
                    acc = q;
                }
                acc
            }
        })
    }
    fn cases(&self) -> Vec<(Vec<(f64, usize)>, bool)> {
        // two-run merges first (the shortest counterexample is reported)
        let mut v = Vec::new();
        for three in [false, true] {
            for &a in &LARGE_VALUES {
                for &b in &LARGE_VALUES {
                    if a == b {
                        continue;
                    }
                    for &na in &self.lens {
                        for &nb in &self.lens {
                            if !three {
                                v.push((vec![(a, na), (b, nb)], true));
                                continue;
                            }
                            for &c in &LARGE_VALUES {
                                if c == b {
                                    continue;
                                }
                                for &nc in &self.lens {
                                    for nest in [true, false] {
                                        v.push((vec![(a, na), (b, nb), (c, nc)], nest));
                                    }
                                }
                            }
                        }
                    }
                }
            }
        }
        v
    }
    fn judge(&self, runs: &[(f64, usize)], obs: &Obs) -> Vec<Violation> {
        let mut out = Vec::new();
        let n: usize = runs.iter().map(|r| r.1).sum();
        let lo = runs.iter().map(|r| r.0).fold(f64::INFINITY, f64::min);
        let hi = runs.iter().map(|r| r.0).fold(f64::NEG_INFINITY, f64::max);
        let m = lo.abs().max(hi.abs());
        // every variance-type quantity is at most sum (x - mean)^2 <= n·(hi - lo)^2; where that
        // bound is far below f64::MAX the quantity is a real number, so not +inf either.
        // (the lifted second coordinate / weight never exceeds |x| / 1)
        let bound = n as f64 * (hi - lo) * (hi - lo);
        let ctx = || format!("the merge of constant runs {runs:?} (value, length){}", self.lift_note);
        for (s, v) in &obs.vals {
            if is_variance(*s) || (T::NAME.starts_with("WeightedMean") && matches!(s, Stat::PopVar | Stat::SampleVar)) {
                sign_check(T::NAME, *s, v, n, &ctx, &mut out);
                if let Val::F(g) = v {
                    if g.is_infinite() && bound < 1e306 && n >= min_n(*s) {
                        out.push(Violation {
                            sig: format!("{}.{}:infinite", T::NAME, s.name()),
                            detail: format!("{}::{} = {g:?} for {}, but it is at most n·(max - min)^2 = {bound:e}", T::NAME, s.name(), ctx()),
                        });
                    }
                }
            }
            if matches!(s, Stat::Mean | Stat::MeanX | Stat::UnweightedMean | Stat::WMean) {
                let t = (8.0 * n as f64 * UNIT * m).max(1e-323);
                match v {
                    Val::F(g) if *g >= lo - t && *g <= hi + t => {}
                    _ => out.push(Violation {
                        sig: format!("{}.{}:outside-data-range", T::NAME, s.name()),
                        detail: format!("{}::{} = {} is outside [{lo:?}, {hi:?}] ± {t:e} for {}", T::NAME, s.name(), v.show(), ctx()),
                    }),
                }
            }
        }
        out
    }
}
impl<T: Chunky> Check for LargeRunMerge<T> {
    fn name(&self) -> String {
        format!("C17/long-run-merges/{}/runs<={}", T::NAME, self.lens.iter().max().unwrap())
    }
    fn run(&self) -> Stats {
        use rayon::prelude::*;
        let t0 = std::time::Instant::now();
        let cases = self.cases();
        let maxlen = *self.lens.iter().max().unwrap();
        let mut st = Stats { spec: self.name(), depth_requested: maxlen, depth_completed: maxlen, ..Default::default() };
        let keys: Vec<(f64, usize)> = LARGE_VALUES.iter().flat_map(|x| self.lens.iter().map(move |n| (*x, *n))).collect();
        let built: Vec<((u64, usize), Result<T, String>)> = keys.par_iter().map(|(x, n)| ((x.to_bits(), *n), guarded(|| self.part(*x, *n)))).collect();
        let mut cache = std::collections::HashMap::new();
        let mut found: std::collections::BTreeMap<String, Found> = Default::default();
        for (k, r) in built {
            st.transitions += k.1 as u64;
            match r {
                Ok(t) => {
                    cache.insert(k, t);
                }
                Err(m) => {
                    let sig = format!("{}.collect:panic:long-runs", T::NAME);
                    found.entry(sig.clone()).or_insert(Found { sig, detail: m, path: vec![json!({"runs": [[fshow(f64::from_bits(k.0)), k.1]]}), json!({"left_nested": true})], count: 1 });
                }
            }
        }
        let res: Vec<Vec<Violation>> = cases
            .par_iter()
            .map(|(runs, nest)| {
                if runs.iter().any(|(x, n)| !cache.contains_key(&(x.to_bits(), *n))) {
                    return vec![];
                }
                match self.eval(runs, *nest, Some(&cache)) {
                    Err(m) => vec![Violation { sig: format!("{}.merge:panic", T::NAME), detail: m }],
                    Ok(e) => self.judge(runs, &e.observe_()),
                }
            })
            .collect();
        let mut outcomes = std::collections::HashSet::new();
        for ((runs, nest), vs) in cases.iter().zip(res) {
            st.states += 1;
            st.transitions += runs.len() as u64 - 1;
            outcomes.insert(vs.len());
            for v in vs {
                let sig = format!("{}:long-runs", v.sig);
                let path = vec![json!({"runs": runs.iter().map(|(x, n)| json!([fshow(*x), n])).collect::<Vec<_>>()}), json!({"left_nested": nest})];
                let e = found.entry(sig.clone()).or_insert(Found { sig, detail: format!("{} [left-nested {}]", v.detail.chars().take(400).collect::<String>(), nest), path, count: 0 });
                e.count += 1;
            }
        }
        st.maximal = st.states;
        st.nontrivial_states = st.states;
        st.outcomes = st.states;
        let (r, n) = &cases[cases.len() / 2];
        st.samples.push(json!({"spec": self.name(), "history": [{"runs": format!("{r:?}")}, {"left_nested": n}]}));
        st.found = found.into_values().collect();
        st.wall_s = t0.elapsed().as_secs_f64();
        st
    }
    fn replay(&self, path: &[Value]) -> Result<Vec<Violation>, String> {
        let runs: Vec<(f64, usize)> = path
            .first()
            .and_then(|v| v.get("runs"))
            .and_then(|r| r.as_array())
            .ok_or("no runs")?
            .iter()
            .map(|p| Some((fparse(p.get(0)?)?, p.get(1)?.as_u64()? as usize)))
            .collect::<Option<Vec<_>>>()
            .ok_or("bad runs")?;
        let nest = path.get(1).and_then(|v| v.get("left_nested")).and_then(|b| b.as_bool()).unwrap_or(true);
        match self.eval(&runs, nest, None) {
            Err(m) => Ok(vec![Violation { sig: format!("{}.merge:panic", T::NAME), detail: m }]),
            Ok(e) => Ok(self.judge(&runs, &e.observe_())),
        }
    }
}
fn long_runs<T: Chunky>(q: bool, lift: fn(f64) -> T::Item, lift_note: &'static str) -> Box<dyn Check> {
    let lens = if q { vec![1, 3, 100, 10_000, 100_000] } else { vec![1, 2, 3, 17, 100, 1000, 10_000, 31_623, 65_536, 100_000] };
    Box::new(LargeRunMerge::<T> { lens, lift, lift_note })
}

pub fn plan(tier: Tier) -> Plan {
    let q = tier == Tier::Quick;
    let mut checks: Vec<Box<dyn Check>> = Vec::new();
    uni::<U<Mean>>(&mut checks, q);
    uni::<U<Variance>>(&mut checks, q);
    uni::<U<Skewness>>(&mut checks, q);
    uni::<U<Kurtosis>>(&mut checks, q);
    uni::<U<Moments4>>(&mut checks, q);
    uni::<U<M6>>(&mut checks, q);
    for a in ["ill-pairs", "ulp-pairs", "huge-pairs", "den-pairs"] {
        checks.push(add::<Covariance>(a, pairs(a), if q { 6 } else { 8 }, cov_judge()));
        checks.push(trees::<Covariance>(a, pairs(a), if q { 5 } else { 6 }, cov_judge()));
    }
    for a in ["ill-weights", "ulp-weights", "huge-weights", "small-weights", "den-weights"] {
        checks.push(add::<WeightedMeanWithError>(a, pairs(a), if q { 5 } else { 7 }, weighted_judge::<WeightedMeanWithError>()));
        checks.push(trees::<WeightedMeanWithError>(a, { let mut p = pairs(a); p.truncate(4); p }, if q { 5 } else { 6 }, weighted_judge::<WeightedMeanWithError>()));
        checks.push(add::<WeightedMean>(a, pairs(a), if q { 5 } else { 7 }, weighted_judge::<WeightedMean>()));
        checks.push(trees::<WeightedMean>(a, { let mut p = pairs(a); p.truncate(4); p }, if q { 5 } else { 6 }, weighted_judge::<WeightedMean>()));
    }
    let mr = if q { 12 } else { 24 };
    checks.push(runs::<U<Mean>>(mr));
    checks.push(runs::<U<Variance>>(mr));
    checks.push(runs::<U<Skewness>>(mr));
    checks.push(runs::<U<Kurtosis>>(mr));
    checks.push(runs::<U<Moments4>>(mr));
    checks.push(runs::<U<M6>>(mr));
    fn id(x: f64) -> f64 {
        x
    }
    checks.push(long_runs::<U<Mean>>(q, id, ""));
    checks.push(long_runs::<U<Variance>>(q, id, ""));
    checks.push(long_runs::<U<Skewness>>(q, id, ""));
    checks.push(long_runs::<U<Kurtosis>>(q, id, ""));
    checks.push(long_runs::<U<Moments4>>(q, id, ""));
    checks.push(long_runs::<U<M6>>(q, id, ""));
    checks.push(long_runs::<Covariance>(q, |x| (x, -0.5 * x), " as x, with y = -x/2"));
    checks.push(long_runs::<WeightedMeanWithError>(q, |x| (x, 1.0), " with weight 1"));
    checks.push(long_runs::<WeightedMean>(q, |x| (x, 0.5), " with weight 0.5"));
    let mt = if q { 6 } else { 9 };
    checks.push(Box::new(HistVar::<H1> { max_total: mt, _h: Default::default() }));
    checks.push(Box::new(HistVar::<H2> { max_total: mt, _h: Default::default() }));
    checks.push(Box::new(HistVar::<H3> { max_total: mt, _h: Default::default() }));
    checks.push(Box::new(HistVar::<H4> { max_total: mt, _h: Default::default() }));
    Plan {
        rule: "merges of LONG constant runs of far-apart values (values -1e150, 1e150, 1; run lengths 1..10^5; every two-run merge and every three-run merge in both bracketings; additionally a variance-type accessor bounded by n·(max-min)^2 < 1e306 must be finite); merges of constant runs of ADJACENT floating-point values (nine base values incl. 0.1, 0.3, 1e15+3, 1.1e150, a subnormal; neighbour distance 1..3 ulps; every pair of run lengths up to 8 / 16, both orders, and three-run nestings in both bracketings); AND no restriction on kappa: alphabets ill (offset 1e15 x spread), ulp (spread of one ulp), den (subnormals), huge (|x| = 1e150), off11, mixed; weighted pairs additionally small-weights (1e-17..1e-16) and den-weights (subnormal and barely normal values with fractional weights); every add-sequence up to the depth bound AND every merge tree over every chunking (interval exploration) for Mean, Variance, Skewness, Kurtosis, Moments4, M6, Covariance, WeightedMean(WithError); on every reachable state every variance-type accessor is >= 0 and not NaN whenever defined, every mean lies within the data range ± 8·n·u·max|x|, effective_len lies in [1, len] up to n·2^-50; histograms LEN 1..4: every count vector of total <= 6 (9 thorough), variance(i) and variances() in [0, total/4] ± 4 ulp".into(),
        assumptions: {
            let mut a = common_assumptions();
            a.push("weighted estimators: weights explored are 0 and values in [1e-17, 1e6] (C17 states no weight range); weights whose squares underflow or whose sum squared overflows are outside the explored space".into());
            a.push("range tolerances have an absolute floor of two spacings of the subnormal grid (1e-323)".into());
            a
        },
        checks,
    }
}
