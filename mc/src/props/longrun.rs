//! Long histories as exhaustively enumerated *finite families* (DESIGN.md §1, "Long streams"):
//!  * lasso streams: every word up to a small length over an alphabet, repeated to n;
//!  * doubling merges: an estimator merged with itself k times (n = |w|·2^k) and the cross
//!    merges of two such chains — reaches n ~ 2^40 with a few dozen real merges;
//!  * long parallel collections: a periodic input of 10^5..10^6 items through a few
//!    split-tree shapes of the rayon seam.
//! The oracle is the exact statistics of the weighted multiset (letter, multiplicity).

use super::c19::UniPar;
use super::common::*;
use super::hist06::all_lists;
use crate::exact::ExactStats;
use crate::explore::{Found, Stats, Violation};
use crate::rayon_seam::{ScriptedVals, Tree};
use crate::subjects::*;
use rayon::prelude::*;
use serde_json::{json, Value};
use std::collections::BTreeMap;
use std::marker::PhantomData;
use std::sync::Arc;

fn weighted(word: &[f64], n: u64) -> Vec<(f64, u64)> {
    // the first n items of word^ω
    let l = word.len() as u64;
    let mut m: BTreeMap<u64, (f64, u64)> = BTreeMap::new();
    for (i, x) in word.iter().enumerate() {
        let c = n / l + if (i as u64) < n % l { 1 } else { 0 };
        if c > 0 {
            m.entry(x.to_bits()).or_insert((*x, 0)).1 += c;
        }
    }
    m.into_values().collect()
}

fn checkpoints(n_max: u64) -> Vec<u64> {
    let mut v: Vec<u64> = (1..=16.min(n_max)).collect();
    let mut p = 32;
    while p < n_max {
        v.push(p);
        v.push(p + 1);
        p *= 2;
    }
    v.push(n_max);
    v.sort();
    v.dedup();
    v
}

fn words_upto(alpha: &[f64], max_len: usize) -> Vec<Vec<f64>> {
    let mut w = Vec::new();
    for l in 1..=max_len {
        w.extend(all_lists(alpha, l));
    }
    w
}

fn wjson(w: &[f64]) -> Value {
    Value::Array(w.iter().map(|x| fshow(*x)).collect())
}
fn wparse(v: &Value) -> Option<Vec<f64>> {
    v.as_array()?.iter().map(fparse).collect()
}

// ---------------------------------------------------------------------------------------

pub struct LassoAdd<T: Uni> {
    pub prop: &'static str,
    pub alpha_name: String,
    pub alpha: Vec<f64>,
    pub max_word: usize,
    pub n_max: u64,
    pub filter: StatFilter,
    pub guard: bool,
    pub board: Arc<RatioBoard>,
    pub _t: PhantomData<T>,
}

impl<T: Uni> LassoAdd<T> {
    fn run_word(&self, w: &[f64], only_at: Option<u64>) -> (u64, Vec<(Violation, u64)>) {
        let mut out = Vec::new();
        let cps = checkpoints(self.n_max);
        let mut e = T::fresh();
        let mut ci = 0;
        let mut steps = 0u64;
        for k in 1..=self.n_max {
            let x = w[((k - 1) % w.len() as u64) as usize];
            if let Err(m) = guarded(|| e.add1(x)) {
                out.push((Violation { sig: format!("{}.add:panic", T::NAME), detail: format!("add panicked at n = {k}: {m}") }, k));
                break;
            }
            steps += 1;
            if ci < cps.len() && cps[ci] == k {
                ci += 1;
                if only_at.map(|o| o != k).unwrap_or(false) {
                    continue;
                }
                let ex = ExactStats::new_weighted(&weighted(w, k), T::ORDER.max(2));
                for v in judge_moment_obs(T::NAME, &e.observe(), &ex, self.filter, if self.guard { Some(T::ORDER) } else { None }, &self.board) {
                    out.push((v, k));
                }
                if !out.is_empty() {
                    break;
                }
            }
        }
        (steps, out)
    }
}

impl<T: Uni> Check for LassoAdd<T> {
    fn name(&self) -> String {
        format!("{}/lasso-add/{}/{}/w{}/n{}", self.prop, T::NAME, self.alpha_name, self.max_word, self.n_max)
    }
    fn run(&self) -> Stats {
        let t0 = std::time::Instant::now();
        let words = words_upto(&self.alpha, self.max_word);
        let mut st = Stats { spec: self.name(), depth_requested: self.n_max as usize, depth_completed: self.n_max as usize, ..Default::default() };
        let res: Vec<(u64, Vec<(Violation, u64)>)> = words.par_iter().map(|w| self.run_word(w, None)).collect();
        let mut found: BTreeMap<String, Found> = BTreeMap::new();
        let ncp = checkpoints(self.n_max).len() as u64;
        for (w, (steps, vs)) in words.iter().zip(res) {
            st.transitions += steps;
            st.states += ncp;
            st.maximal += 1;
            for (v, k) in vs {
                let sig = format!("{}:long-stream", v.sig);
                let e = found.entry(sig.clone()).or_insert(Found { sig, detail: format!("{} [word {:?} repeated, checked at n = {k}]", v.detail, w), path: vec![json!({"word": wjson(w)}), json!({"checked_at": k})], count: 0 });
                e.count += 1;
            }
        }
        st.nontrivial_states = st.states;
        st.outcomes = st.maximal;
        st.samples.push(json!({"spec": self.name(), "history": [{"word": words[words.len() / 2].iter().map(|x| format!("{x:?}")).collect::<Vec<_>>()}, {"repeated_to": self.n_max}, {"checked_at": checkpoints(self.n_max)}]}));
        st.found = found.into_values().collect();
        st.wall_s = t0.elapsed().as_secs_f64();
        st
    }
    fn replay(&self, path: &[Value]) -> Result<Vec<Violation>, String> {
        let w = path.first().and_then(|v| v.get("word")).and_then(wparse).ok_or("no word")?;
        let k = path.get(1).and_then(|v| v.get("checked_at")).and_then(|k| k.as_u64()).ok_or("no checkpoint")?;
        Ok(self.run_word(&w, Some(k)).1.into_iter().map(|(v, _)| v).collect())
    }
    fn extra(&self) -> Value {
        json!({"worst_error_over_envelope": self.board.dump()})
    }
}

pub fn lasso<T: Uni>(prop: &'static str, alpha: &str, k: usize, max_word: usize, n_max: u64, filter: StatFilter, guard: bool) -> Box<dyn Check> {
    Box::new(LassoAdd::<T> { prop, alpha_name: format!("{alpha}{k}"), alpha: sub_alphabet(alpha, k), max_word, n_max, filter, guard, board: Arc::new(RatioBoard::new()), _t: PhantomData })
}

// ---------------------------------------------------------------------------------------

pub struct Doubling<T: UniMerge + UniIngest> {
    pub prop: &'static str,
    pub alpha_name: String,
    pub alpha: Vec<f64>,
    pub max_word: usize,
    pub doublings: usize,
    pub filter: StatFilter,
    pub guard: bool,
    pub board: Arc<RatioBoard>,
    pub _t: PhantomData<T>,
}

fn chain<T: UniMerge + UniIngest>(w: &[f64], k: usize) -> Result<Vec<T>, String> {
    let mut v = vec![T::collect_vals(w)];
    for _ in 0..k {
        let last = v.last().unwrap().clone();
        let o = last.clone();
        v.push(guarded(move || {
            let mut x = last;
            x.merge_(&o);
            x
        })?);
    }
    Ok(v)
}

impl<T: UniMerge + UniIngest> Doubling<T> {
    fn judge(&self, w1: &[f64], i: usize, w2: Option<(&[f64], usize)>, e: &T) -> Vec<Violation> {
        let mut ms: Vec<(f64, u64)> = w1.iter().map(|x| (*x, 1u64 << i)).collect();
        if let Some((w2, j)) = w2 {
            ms.extend(w2.iter().map(|x| (*x, 1u64 << j)));
        }
        let ex = ExactStats::new_weighted(&ms, T::ORDER.max(2));
        judge_moment_obs(T::NAME, &e.observe(), &ex, self.filter, if self.guard { Some(T::ORDER) } else { None }, &self.board)
    }
    fn pair(&self, w1: &[f64], w2: &[f64], only: Option<(usize, Option<usize>, bool)>) -> (u64, Vec<(Violation, Value)>) {
        let mut out = Vec::new();
        // one artefact per signature per pair of chains (a broken merge violates everywhere)
        let mut sigs: std::collections::HashSet<String> = std::collections::HashSet::new();
        let mut merges = 0u64;
        let path = |i: usize, j: Option<usize>, rev: bool| json!([{"a": {"base": wjson(w1), "doublings": i}}, {"b": j.map(|j| json!({"base": wjson(w2), "doublings": j}))}, {"b_merge_a": rev}]);
        let (ca, cb) = match (chain::<T>(w1, self.doublings), chain::<T>(w2, self.doublings)) {
            (Ok(a), Ok(b)) => (a, b),
            (Err(m), _) | (_, Err(m)) => {
                return (0, vec![(Violation { sig: format!("{}.merge:panic:large-n", T::NAME), detail: format!("self-merge chain of {w1:?} / {w2:?} panicked: {m}") }, path(0, None, false))]);
            }
        };
        for (i, a) in ca.iter().enumerate() {
            merges += 1;
            if only.map(|o| o == (i, None, false)).unwrap_or(true) {
                for v in self.judge(w1, i, None, a) {
                    if sigs.insert(v.sig.clone()) {
                        out.push((v, path(i, None, false)));
                    }
                }
            }
        }
        for (i, a) in ca.iter().enumerate() {
            for (j, b) in cb.iter().enumerate() {
                for rev in [false, true] {
                    if only.map(|o| o != (i, Some(j), rev)).unwrap_or(false) {
                        continue;
                    }
                    merges += 1;
                    let (x, y) = if rev { (b.clone(), a.clone()) } else { (a.clone(), b.clone()) };
                    match guarded(move || {
                        let mut x = x;
                        x.merge_(&y);
                        x
                    }) {
                        Err(m) => out.push((Violation { sig: format!("{}.merge:panic:large-n", T::NAME), detail: format!("merge of 2^{i} x {w1:?} with 2^{j} x {w2:?} panicked: {m}") }, path(i, Some(j), rev))),
                        Ok(e) => {
                            for v in self.judge(w1, i, Some((w2, j)), &e) {
                                if sigs.insert(v.sig.clone()) {
                                    out.push((v, path(i, Some(j), rev)));
                                }
                            }
                        }
                    }
                }
            }
        }
        (merges, out)
    }
}

impl<T: UniMerge + UniIngest> Check for Doubling<T> {
    fn name(&self) -> String {
        format!("{}/doubling-merge/{}/{}/w{}/2^{}", self.prop, T::NAME, self.alpha_name, self.max_word, self.doublings)
    }
    fn run(&self) -> Stats {
        let t0 = std::time::Instant::now();
        let words = words_upto(&self.alpha, self.max_word);
        let mut pairs = Vec::new();
        for a in &words {
            for b in &words {
                pairs.push((a.clone(), b.clone()));
            }
        }
        let mut st = Stats { spec: self.name(), depth_requested: self.doublings, depth_completed: self.doublings, ..Default::default() };
        let res: Vec<(u64, Vec<(Violation, Value)>)> = pairs.par_iter().map(|(a, b)| self.pair(a, b, None)).collect();
        let mut found: BTreeMap<String, Found> = BTreeMap::new();
        for (m, vs) in res {
            st.transitions += m;
            st.states += m;
            for (v, p) in vs {
                let sig = if v.sig.ends_with("large-n") { v.sig.clone() } else { format!("{}:large-n-merge", v.sig) };
                let e = found.entry(sig.clone()).or_insert(Found { sig, detail: v.detail, path: p.as_array().unwrap().clone(), count: 0 });
                e.count += 1;
            }
        }
        st.maximal = st.states;
        st.nontrivial_states = st.states;
        st.outcomes = st.states;
        let (a, b) = &pairs[pairs.len() / 2];
        st.samples.push(json!({"spec": self.name(), "history": [{"a": {"base": format!("{a:?}"), "doublings": self.doublings}}, {"b": {"base": format!("{b:?}"), "doublings": self.doublings / 2}}, "a.merge(b)"]}));
        st.found = found.into_values().collect();
        st.wall_s = t0.elapsed().as_secs_f64();
        st
    }
    fn replay(&self, path: &[Value]) -> Result<Vec<Violation>, String> {
        let a = path.first().and_then(|v| v.get("a")).ok_or("no a")?;
        let w1 = a.get("base").and_then(wparse).ok_or("bad a")?;
        let i = a.get("doublings").and_then(|d| d.as_u64()).ok_or("bad a")? as usize;
        let b = path.get(1).and_then(|v| v.get("b")).ok_or("no b")?;
        let rev = path.get(2).and_then(|v| v.get("b_merge_a")).and_then(|r| r.as_bool()).unwrap_or(false);
        if b.is_null() {
            return Ok(self.pair(&w1, &w1, Some((i, None, false))).1.into_iter().map(|(v, _)| v).collect());
        }
        let w2 = b.get("base").and_then(wparse).ok_or("bad b")?;
        let j = b.get("doublings").and_then(|d| d.as_u64()).ok_or("bad b")? as usize;
        Ok(self.pair(&w1, &w2, Some((i, Some(j), rev))).1.into_iter().map(|(v, _)| v).collect())
    }
    fn extra(&self) -> Value {
        json!({"worst_error_over_envelope": self.board.dump()})
    }
}

pub fn doubling<T: UniMerge + UniIngest>(prop: &'static str, alpha: &str, k: usize, max_word: usize, doublings: usize, filter: StatFilter, guard: bool) -> Box<dyn Check> {
    Box::new(Doubling::<T> { prop, alpha_name: format!("{alpha}{k}"), alpha: sub_alphabet(alpha, k), max_word, doublings, filter, guard, board: Arc::new(RatioBoard::new()), _t: PhantomData })
}

// ---------------------------------------------------------------------------------------

pub struct LongPar<T: UniPar> {
    pub alpha_name: String,
    pub alpha: Vec<f64>,
    pub max_word: usize,
    pub n: usize,
    pub filter: StatFilter,
    pub board: Arc<RatioBoard>,
    pub _t: PhantomData<T>,
}

fn balanced(lo: usize, hi: usize, leaf: usize) -> Tree {
    if hi - lo <= leaf {
        return Tree::Leaf(lo, hi);
    }
    let m = lo + (hi - lo) / 2;
    Tree::Node(Box::new(balanced(lo, m, leaf)), Box::new(balanced(m, hi, leaf)), false)
}
fn comb(lo: usize, hi: usize, chunk: usize, left: bool) -> Tree {
    if hi - lo <= chunk {
        return Tree::Leaf(lo, hi);
    }
    if left {
        Tree::Node(Box::new(comb(lo, hi - chunk, chunk, left)), Box::new(Tree::Leaf(hi - chunk, hi)), false)
    } else {
        Tree::Node(Box::new(Tree::Leaf(lo, lo + chunk)), Box::new(comb(lo + chunk, hi, chunk, left)), false)
    }
}
pub fn shapes(n: usize) -> Vec<(String, Tree)> {
    let mut v = vec![("single-leaf".to_string(), Tree::Leaf(0, n))];
    for leaf in [n / 2 + 1, 1 << 16, 1000, 37] {
        if leaf < n {
            v.push((format!("balanced/leaf<={leaf}"), balanced(0, n, leaf)));
        }
    }
    let c = (n / 24).max(1);
    v.push((format!("left-comb/chunk={c}"), comb(0, n, c, true)));
    v.push((format!("right-comb/chunk={c}"), comb(0, n, c, false)));
    v.push(("one-item-then-rest".into(), Tree::Node(Box::new(Tree::Leaf(0, 1)), Box::new(balanced(1, n, n / 3 + 1)), false)));
    v.push(("empty-then-all".into(), Tree::Node(Box::new(Tree::Leaf(0, 0)), Box::new(Tree::Leaf(0, n)), false)));
    v
}

impl<T: UniPar> LongPar<T> {
    fn one(&self, w: &[f64], shape: &Tree) -> Vec<Violation> {
        let data: Vec<f64> = (0..self.n).map(|i| w[i % w.len()]).collect();
        match guarded(|| T::par_vals(ScriptedVals { items: &data, tree: shape })) {
            Err(m) => vec![Violation { sig: format!("{}.from_par_iter:panic:long-input", T::NAME), detail: format!("collecting {} items panicked: {m}", self.n) }],
            Ok(e) => {
                if T::ORDER == 0 {
                    let mut s = T::fresh();
                    for x in &data {
                        s.add1(*x);
                    }
                    if s.observe().bits_eq(&e.observe()) {
                        vec![]
                    } else {
                        vec![Violation { sig: format!("{}.from_par_iter:differs-from-sequential:long-input", T::NAME), detail: format!("{} vs sequential {}", e.dbg(), s.dbg()) }]
                    }
                } else {
                    let ex = ExactStats::new_weighted(&weighted(w, self.n as u64), T::ORDER.max(2));
                    judge_moment_obs(T::NAME, &e.observe(), &ex, self.filter, if T::ORDER >= 4 { Some(T::ORDER) } else { None }, &self.board)
                        .into_iter()
                        .map(|mut v| {
                            v.sig = format!("{}:long-input", v.sig);
                            v
                        })
                        .collect()
                }
            }
        }
    }
}

impl<T: UniPar> Check for LongPar<T> {
    fn name(&self) -> String {
        format!("C19/long-input/{}/{}/w{}/n{}", T::NAME, self.alpha_name, self.max_word, self.n)
    }
    fn run(&self) -> Stats {
        let t0 = std::time::Instant::now();
        let words = words_upto(&self.alpha, self.max_word);
        let sh = shapes(self.n);
        let mut st = Stats { spec: self.name(), depth_requested: self.n, depth_completed: self.n, ..Default::default() };
        let jobs: Vec<(usize, usize)> = (0..words.len()).flat_map(|i| (0..sh.len()).map(move |j| (i, j))).collect();
        let res: Vec<Vec<Violation>> = jobs.par_iter().map(|&(i, j)| self.one(&words[i], &sh[j].1)).collect();
        let mut found: BTreeMap<String, Found> = BTreeMap::new();
        for (&(i, j), vs) in jobs.iter().zip(res) {
            st.states += 1;
            st.transitions += self.n as u64;
            for v in vs {
                let e = found.entry(v.sig.clone()).or_insert(Found { sig: v.sig, detail: format!("{} [word {:?} repeated to {}, split shape {}]", v.detail, words[i], self.n, sh[j].0), path: vec![json!({"word": wjson(&words[i])}), json!({"shape": sh[j].0})], count: 0 });
                e.count += 1;
            }
        }
        st.maximal = st.states;
        st.nontrivial_states = st.states;
        st.outcomes = st.states;
        st.samples.push(json!({"spec": self.name(), "history": [{"word": format!("{:?}", words[words.len() / 2])}, {"repeated_to": self.n}, {"split_shapes": sh.iter().map(|s| s.0.clone()).collect::<Vec<_>>()}]}));
        st.found = found.into_values().collect();
        st.wall_s = t0.elapsed().as_secs_f64();
        st
    }
    fn replay(&self, path: &[Value]) -> Result<Vec<Violation>, String> {
        let w = path.first().and_then(|v| v.get("word")).and_then(wparse).ok_or("no word")?;
        let name = path.get(1).and_then(|v| v.get("shape")).and_then(|s| s.as_str()).ok_or("no shape")?;
        let sh = shapes(self.n);
        let t = sh.iter().find(|s| s.0 == name).ok_or("unknown shape")?;
        Ok(self.one(&w, &t.1))
    }
    fn extra(&self) -> Value {
        json!({"worst_error_over_envelope": self.board.dump()})
    }
}

pub fn longpar<T: UniPar>(alpha: &str, k: usize, max_word: usize, n: usize, filter: StatFilter) -> Box<dyn Check> {
    Box::new(LongPar::<T> { alpha_name: format!("{alpha}{k}"), alpha: sub_alphabet(alpha, k), max_word, n, filter, board: Arc::new(RatioBoard::new()), _t: PhantomData })
}

// ---------------------------------------------------------------------------------------
// doubling merges for the pair estimators (weighted multiset of pairs as oracle input)

use super::interval::Chunky;

pub type MultJudge = Box<dyn Fn(&[((f64, f64), u64)], &Obs) -> Vec<Violation> + Send + Sync>;

pub struct DoublingPairs<T: Chunky<Item = (f64, f64)>> {
    pub prop: &'static str,
    pub alpha_name: String,
    pub alpha: Vec<(f64, f64)>,
    pub doublings: usize,
    pub judge: MultJudge,
    pub _t: PhantomData<T>,
}

impl<T: Chunky<Item = (f64, f64)>> DoublingPairs<T> {
    fn words(&self) -> Vec<Vec<(f64, f64)>> {
        let mut v: Vec<Vec<(f64, f64)>> = self.alpha.iter().map(|p| vec![*p]).collect();
        for a in &self.alpha {
            for b in &self.alpha {
                v.push(vec![*a, *b]);
            }
        }
        v
    }
    fn chain(&self, w: &[(f64, f64)]) -> Result<Vec<T>, String> {
        let mut v = vec![T::collect(w)];
        for _ in 0..self.doublings {
            let last = v.last().unwrap().clone();
            let o = last.clone();
            v.push(guarded(move || {
                let mut x = last;
                x.merge_(&o);
                x
            })?);
        }
        Ok(v)
    }
    fn rows(w1: &[(f64, f64)], i: usize, w2: Option<(&[(f64, f64)], usize)>) -> Vec<((f64, f64), u64)> {
        let mut r: Vec<((f64, f64), u64)> = w1.iter().map(|p| (*p, 1u64 << i)).collect();
        if let Some((w2, j)) = w2 {
            r.extend(w2.iter().map(|p| (*p, 1u64 << j)));
        }
        r
    }
    fn pair(&self, w1: &[(f64, f64)], w2: &[(f64, f64)], only: Option<(usize, Option<usize>, bool)>) -> (u64, Vec<(Violation, Value)>) {
        let pj = |w: &[(f64, f64)]| Value::Array(w.iter().map(|p| T::item_json(p)).collect());
        let path = |i: usize, j: Option<usize>, rev: bool| json!([{"a": {"base": pj(w1), "doublings": i}}, {"b": j.map(|j| json!({"base": pj(w2), "doublings": j}))}, {"b_merge_a": rev}]);
        let (ca, cb) = match (self.chain(w1), self.chain(w2)) {
            (Ok(a), Ok(b)) => (a, b),
            (Err(m), _) | (_, Err(m)) => return (0, vec![(Violation { sig: format!("{}.merge:panic:large-n", T::NAME), detail: format!("self-merge chain panicked: {m}") }, path(0, None, false))]),
        };
        let mut out = Vec::new();
        let mut sigs: std::collections::HashSet<String> = std::collections::HashSet::new();
        let mut merges = 0u64;
        for (i, a) in ca.iter().enumerate() {
            merges += 1;
            if only.map(|o| o == (i, None, false)).unwrap_or(true) {
                for v in (self.judge)(&Self::rows(w1, i, None), &a.observe_()) {
                    if sigs.insert(v.sig.clone()) {
                        out.push((v, path(i, None, false)));
                    }
                }
            }
        }
        for (i, a) in ca.iter().enumerate() {
            for (j, b) in cb.iter().enumerate() {
                for rev in [false, true] {
                    if only.map(|o| o != (i, Some(j), rev)).unwrap_or(false) {
                        continue;
                    }
                    merges += 1;
                    let (x, y) = if rev { (b.clone(), a.clone()) } else { (a.clone(), b.clone()) };
                    match guarded(move || {
                        let mut x = x;
                        x.merge_(&y);
                        x
                    }) {
                        Err(m) => out.push((Violation { sig: format!("{}.merge:panic:large-n", T::NAME), detail: format!("merge of 2^{i} x {w1:?} with 2^{j} x {w2:?} panicked: {m}") }, path(i, Some(j), rev))),
                        Ok(e) => {
                            for v in (self.judge)(&Self::rows(w1, i, Some((w2, j))), &e.observe_()) {
                                if sigs.insert(v.sig.clone()) {
                                    out.push((v, path(i, Some(j), rev)));
                                }
                            }
                        }
                    }
                }
            }
        }
        (merges, out)
    }
}

impl<T: Chunky<Item = (f64, f64)>> Check for DoublingPairs<T> {
    fn name(&self) -> String {
        format!("{}/doubling-merge/{}/{}/2^{}", self.prop, T::NAME, self.alpha_name, self.doublings)
    }
    fn run(&self) -> Stats {
        let t0 = std::time::Instant::now();
        let words = self.words();
        let mut pairs = Vec::new();
        for a in &words {
            for b in &words {
                pairs.push((a.clone(), b.clone()));
            }
        }
        let mut st = Stats { spec: self.name(), depth_requested: self.doublings, depth_completed: self.doublings, ..Default::default() };
        let res: Vec<(u64, Vec<(Violation, Value)>)> = pairs.par_iter().map(|(a, b)| self.pair(a, b, None)).collect();
        let mut found: BTreeMap<String, Found> = BTreeMap::new();
        for (m, vs) in res {
            st.transitions += m;
            st.states += m;
            for (v, p) in vs {
                let sig = if v.sig.ends_with("large-n") { v.sig.clone() } else { format!("{}:large-n-merge", v.sig) };
                let e = found.entry(sig.clone()).or_insert(Found { sig, detail: v.detail.chars().take(600).collect(), path: p.as_array().unwrap().clone(), count: 0 });
                e.count += 1;
            }
        }
        st.maximal = st.states;
        st.nontrivial_states = st.states;
        st.outcomes = st.states;
        let (a, b) = &pairs[pairs.len() / 2];
        st.samples.push(json!({"spec": self.name(), "history": [{"a": {"base": format!("{a:?}"), "doublings": self.doublings}}, {"b": {"base": format!("{b:?}"), "doublings": self.doublings / 2}}, "a.merge(b)"]}));
        st.found = found.into_values().collect();
        st.wall_s = t0.elapsed().as_secs_f64();
        st
    }
    fn replay(&self, path: &[Value]) -> Result<Vec<Violation>, String> {
        let pw = |v: &Value| -> Option<Vec<(f64, f64)>> { v.as_array()?.iter().map(|p| T::item_parse(p)).collect() };
        let a = path.first().and_then(|v| v.get("a")).ok_or("no a")?;
        let w1 = a.get("base").and_then(pw).ok_or("bad a")?;
        let i = a.get("doublings").and_then(|d| d.as_u64()).ok_or("bad a")? as usize;
        let b = path.get(1).and_then(|v| v.get("b")).ok_or("no b")?;
        let rev = path.get(2).and_then(|v| v.get("b_merge_a")).and_then(|r| r.as_bool()).unwrap_or(false);
        if b.is_null() {
            return Ok(self.pair(&w1, &w1, Some((i, None, false))).1.into_iter().map(|(v, _)| v).collect());
        }
        let w2 = b.get("base").and_then(pw).ok_or("bad b")?;
        let j = b.get("doublings").and_then(|d| d.as_u64()).ok_or("bad b")? as usize;
        Ok(self.pair(&w1, &w2, Some((i, Some(j), rev))).1.into_iter().map(|(v, _)| v).collect())
    }
}
