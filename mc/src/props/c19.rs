//! C19 — parallel collection gives the sequential answer under every schedule.
//! Decided at the rayon plumbing seam (see rayon_seam.rs): every split tree over every
//! composition of every short word, through the crate's real `FromParallelIterator` impls.

use super::c02::moment_judge;
use super::chunky_impls::U;
use super::common::*;
use super::hist06::all_lists;
use super::interval::Judge;
use super::{common_assumptions, Plan};
use crate::explore::{Found, Stats, Violation};
use crate::rayon_seam::*;
use crate::report::Tier;
use crate::subjects::*;
use average::{Kurtosis, Max, Mean, Min, Moments4, Skewness, Variance};
use rayon::iter::{FromParallelIterator, IndexedParallelIterator, ParallelIterator};
use rayon::prelude::*;
use serde_json::{json, Value};
use std::collections::{BTreeMap, HashSet};
use std::sync::{Arc, Mutex};

pub trait UniPar: UniMerge + UniIngest {
    fn par_vals<I: ParallelIterator<Item = f64>>(i: I) -> Self;
    fn par_refs<'a, I: ParallelIterator<Item = &'a f64>>(i: I) -> Self;
}
macro_rules! impl_par {
    ($t:ty) => {
        impl UniPar for $t {
            fn par_vals<I: ParallelIterator<Item = f64>>(i: I) -> Self {
                <$t as FromParallelIterator<f64>>::from_par_iter(i)
            }
            fn par_refs<'a, I: ParallelIterator<Item = &'a f64>>(i: I) -> Self {
                <$t as FromParallelIterator<&'a f64>>::from_par_iter(i)
            }
        }
    };
}
impl_par!(Mean);
impl_par!(Variance);
impl_par!(Skewness);
impl_par!(Kurtosis);
impl_par!(Min);
impl_par!(Max);
impl_par!(Moments4);
impl_par!(M6);
impl_par!(M10);

fn extreme_judge<T: Uni>() -> Judge<U<T>>
where
    U<T>: super::interval::Chunky<Item = f64>,
{
    Box::new(|items: &[f64], obs: &Obs| {
        let mut seq = T::fresh();
        for x in items {
            seq.add1(*x);
        }
        let want = seq.observe();
        if want.bits_eq(obs) || want.vals.iter().zip(obs.vals.iter()).all(|(a, b)| matches!((&a.1, &b.1), (Val::F(x), Val::F(y)) if x == y)) {
            vec![]
        } else {
            vec![Violation { sig: format!("{}.from_par_iter:differs-from-sequential", T::NAME), detail: format!("{}: parallel result {} but sequential {} on {items:?}", T::NAME, want.first_diff(obs), seq.dbg()) }]
        }
    })
}

pub struct ParCheck<T: UniPar> {
    pub alpha_name: String,
    pub alpha: Vec<f64>,
    pub max_len: usize,
    pub empties: usize,
    pub orders_upto_leaves: usize,
    pub judge: Judge<U<T>>,
    pub extra: Box<dyn Fn() -> Value + Send + Sync>,
}

fn run_tree<T: UniPar>(items: &[f64], tree: &Tree, by_ref: bool) -> Result<T, String> {
    guarded(|| if by_ref { T::par_refs(ScriptedRefs { items, tree }) } else { T::par_vals(ScriptedVals { items, tree }) })
}

impl<T: UniPar> ParCheck<T> {
    fn trees(&self, n: usize) -> Vec<Tree> {
        let mut v = all_trees(0, n, self.empties, false);
        // both execution orders for small trees (purity of fold/reduce)
        let extra: Vec<Tree> = all_trees(0, n, 0, true).into_iter().filter(|t| t.leaves() <= self.orders_upto_leaves).collect();
        let mut seen: HashSet<Tree> = v.iter().cloned().collect();
        for t in extra {
            if seen.insert(t.clone()) {
                v.push(t);
            }
        }
        v
    }
}

impl<T: UniPar> Check for ParCheck<T> {
    fn name(&self) -> String {
        format!("C19/split-trees/{}/{}/e{}", T::NAME, self.alpha_name, self.empties)
    }
    fn run(&self) -> Stats {
        let t0 = std::time::Instant::now();
        let mut st = Stats { spec: self.name(), depth_requested: self.max_len, ..Default::default() };
        let mut found: BTreeMap<String, Found> = BTreeMap::new();
        let mut outcomes: HashSet<String> = HashSet::new();
        let mut bit_diff_from_seq = 0u64;
        for n in 0..=self.max_len {
            let trees = self.trees(n);
            let words: Vec<Vec<f64>> = if n == 0 { vec![vec![]] } else { all_lists(&self.alpha, n) };
            let res: Vec<(u64, u64, u64, Vec<(Violation, Value)>, Vec<String>)> = words
                .par_iter()
                .map(|w| {
                    let mut seen: HashSet<String> = HashSet::new();
                    let mut sigs: HashSet<String> = HashSet::new();
                    let mut found = Vec::new();
                    let mut drives = 0u64;
                    let mut fps = Vec::new();
                    let mut seqdiff = 0u64;
                    let seq = {
                        let mut s = T::fresh();
                        for x in w {
                            s.add1(*x);
                        }
                        s.dbg()
                    };
                    for t in &trees {
                        for by_ref in [false, true] {
                            drives += 1;
                            let path = || json!([{"word": w.iter().map(|x| fshow(*x)).collect::<Vec<_>>()}, {"tree": t.json()}, {"by_ref": by_ref}]);
                            match run_tree::<T>(w, t, by_ref) {
                                Err(m) => found.push((Violation { sig: format!("{}.from_par_iter:panic", T::NAME), detail: m }, path())),
                                Ok(e) => {
                                    let k = e.dbg();
                                    if seen.insert(k.clone()) {
                                        if k != seq {
                                            seqdiff += 1;
                                        }
                                        let obs = e.observe();
                                        fps.push(obs.fingerprint());
                                        for v in (self.judge)(w, &obs) {
                                            if sigs.insert(v.sig.clone()) {
                                                found.push((v, path()));
                                            }
                                        }
                                    }
                                }
                            }
                        }
                    }
                    (seen.len() as u64, drives, seqdiff, found, fps)
                })
                .collect();
            let mut level = 0u64;
            for (s, d, sd, f, fps) in res {
                level += s;
                st.transitions += d;
                bit_diff_from_seq += sd;
                outcomes.extend(fps);
                for (v, path) in f {
                    let e = found.entry(v.sig.clone()).or_insert(Found { sig: v.sig, detail: v.detail, path: path.as_array().unwrap().clone(), count: 0 });
                    e.count += 1;
                }
            }
            st.states += level;
            st.frontier_sizes.push(level);
            if n == self.max_len {
                st.maximal = (words.len() * trees.len() * 2) as u64;
                let t = &trees[trees.len() / 2];
                st.samples.push(json!({"spec": self.name(), "history": [{"word": words[words.len() / 2].iter().map(|x| format!("{x:?}")).collect::<Vec<_>>()}, {"tree": t.json()}], "trees_at_this_length": trees.len()}));
            }
            st.nontrivial_states += if n >= 2 { level } else { 0 };
            st.depth_completed = n;
        }
        st.outcomes = outcomes.len() as u64;
        st.found = found.into_values().collect();
        st.samples.push(json!({"distinct_results_not_bit_equal_to_sequential (diagnostic, allowed)": bit_diff_from_seq}));
        st.wall_s = t0.elapsed().as_secs_f64();
        st
    }
    fn replay(&self, path: &[Value]) -> Result<Vec<Violation>, String> {
        let w: Vec<f64> = path.first().and_then(|v| v.get("word")).and_then(|w| w.as_array()).ok_or("no word")?.iter().map(fparse).collect::<Option<Vec<_>>>().ok_or("bad word")?;
        let t = path.get(1).and_then(|v| v.get("tree")).and_then(Tree::parse).ok_or("bad tree")?;
        let by_ref = path.get(2).and_then(|v| v.get("by_ref")).and_then(|b| b.as_bool()).unwrap_or(false);
        match run_tree::<T>(&w, &t, by_ref) {
            Err(m) => Ok(vec![Violation { sig: format!("{}.from_par_iter:panic", T::NAME), detail: m }]),
            Ok(e) => Ok((self.judge)(&w, &e.observe())),
        }
    }
    fn extra(&self) -> Value {
        (self.extra)()
    }
}

fn filter(s: Stat) -> bool {
    !matches!(s, Stat::Estimate | Stat::SampleSkewness | Stat::SampleExKurt)
}

fn par<T: UniPar>(alpha: &str, k: usize, max_len: usize, empties: usize) -> Box<dyn Check> {
    let cache = Arc::new(ExactCache::new(T::ORDER));
    let board = Arc::new(RatioBoard::new());
    let b2 = board.clone();
    let judge: Judge<U<T>> = if T::ORDER == 0 { extreme_judge::<T>() } else { moment_judge::<T>(filter, cache, board, T::ORDER >= 4) };
    Box::new(ParCheck::<T> {
        alpha_name: format!("{alpha}{k}"),
        alpha: sub_alphabet(alpha, k),
        max_len,
        empties,
        orders_upto_leaves: 4,
        judge,
        extra: Box::new(move || json!({"worst_error_over_envelope": b2.dump()})),
    })
}

fn family<T: UniPar>(checks: &mut Vec<Box<dyn Check>>, q: bool) {
    let alphas: &[&str] = if T::ORDER == 0 { &["ext", "extnan"] } else { &["small", "off9", "tail", "mixed-lo"] };
    for a in alphas {
        let k = if T::ORDER == 0 { 5 } else { 4 };
        checks.push(par::<T>(a, k, if q { 5 } else { 6 }, 0));
        checks.push(par::<T>(a, 3, if q { 3 } else { 4 }, 2));
        if !q {
            // 731 split trees over 7 items, 3-letter alphabet; 2 950 over 8 items, 2-letter alphabet
            checks.push(par::<T>(a, 3, 7, 0));
            checks.push(par::<T>(a, 2, 8, 0));
        }
    }
}

// ---------------------------------------------------------------------------------------
// binding to real rayon: recorded split trees of real pools replayed through the driver

pub struct RealRayon<T: UniPar> {
    pub reps: usize,
    pub _t: std::marker::PhantomData<T>,
}
impl<T: UniPar> Check for RealRayon<T> {
    fn name(&self) -> String {
        format!("C19/real-rayon-conformance/{}", T::NAME)
    }
    fn run(&self) -> Stats {
        let t0 = std::time::Instant::now();
        let mut st = Stats { spec: self.name(), depth_requested: 1, depth_completed: 1, ..Default::default() };
        let mut found: BTreeMap<String, Found> = BTreeMap::new();
        let cache = Arc::new(ExactCache::new(T::ORDER));
        let board = Arc::new(RatioBoard::new());
        let judge: Judge<U<T>> = if T::ORDER == 0 { extreme_judge::<T>() } else { moment_judge::<T>(filter, cache, board, T::ORDER >= 4) };
        let mut shapes: HashSet<Tree> = HashSet::new();
        let inputs: Vec<Vec<f64>> = vec![
            vec![],
            vec![1e9 + 4.],
            alphabet("off9"),
            vec![-2., -1., 0., 0.1, 1., 3.],
            (0..37).map(|i| 1e9 + (i * 7 % 13) as f64).collect(),
            (0..1000).map(|i| ((i * 37 % 101) as f64) * 0.1 - 3.0).collect(),
        ];
        for threads in [1usize, 2, 3, 4, 8, 16] {
            let pool = rayon::ThreadPoolBuilder::new().num_threads(threads).build().expect("pool");
            for data in &inputs {
                let n = data.len();
                for (minl, maxl) in [(1usize, usize::MAX), (1, 1), (2, 3), (1, 2), (n.max(1), usize::MAX), (3, usize::MAX)] {
                    for _rep in 0..self.reps {
                        let log: SplitLog = Arc::new(Mutex::new(Vec::new()));
                        let l2 = log.clone();
                        let real: Result<T, String> = guarded(|| pool.install(|| T::par_vals(Logged { items: data, log: l2 }.with_min_len(minl).with_max_len(maxl.max(minl)))));
                        st.transitions += 1;
                        let tree = tree_from_log(&log.lock().unwrap(), 0, n);
                        shapes.insert(tree.clone());
                        let path = || vec![json!({"word": data.iter().map(|x| fshow(*x)).collect::<Vec<_>>()}), json!({"tree": tree.json()}), json!({"by_ref": false}), json!({"threads": threads, "min_len": minl, "max_len": if maxl == usize::MAX { 0 } else { maxl }})];
                        match (real, run_tree::<T>(data, &tree, false)) {
                            (Ok(r), Ok(s)) => {
                                st.maximal += 1;
                                if r.dbg() != s.dbg() {
                                    let e = found.entry(format!("{}.real-rayon:differs-from-scripted-replay", T::NAME)).or_insert(Found {
                                        sig: format!("{}.real-rayon:differs-from-scripted-replay", T::NAME),
                                        detail: format!("real rayon ({threads} threads, min_len {minl}, max_len {maxl}) gave {} but replaying its recorded split tree through the scripted driver gives {}", r.dbg(), s.dbg()),
                                        path: path(),
                                        count: 0,
                                    });
                                    e.count += 1;
                                }
                                for v in judge(data, &r.observe()) {
                                    let e = found.entry(v.sig.clone()).or_insert(Found { sig: v.sig, detail: v.detail, path: path(), count: 0 });
                                    e.count += 1;
                                }
                            }
                            (Err(m), _) | (_, Err(m)) => {
                                let e = found.entry(format!("{}.from_par_iter:panic", T::NAME)).or_insert(Found { sig: format!("{}.from_par_iter:panic", T::NAME), detail: m, path: path(), count: 0 });
                                e.count += 1;
                            }
                        }
                    }
                }
            }
        }
        st.states = shapes.len() as u64;
        st.nontrivial_states = shapes.iter().filter(|t| t.leaves() > 1).count() as u64;
        st.outcomes = shapes.len() as u64;
        if let Some(t) = shapes.iter().find(|t| t.leaves() > 2 && t.leaves() < 8) {
            st.samples.push(json!({"spec": self.name(), "history": [{"recorded_split_tree": t.json()}]}));
        }
        st.found = found.into_values().collect();
        st.wall_s = t0.elapsed().as_secs_f64();
        st
    }
    fn replay(&self, path: &[Value]) -> Result<Vec<Violation>, String> {
        // the recorded tree is replayed deterministically through the scripted driver
        let w: Vec<f64> = path.first().and_then(|v| v.get("word")).and_then(|w| w.as_array()).ok_or("no word")?.iter().map(fparse).collect::<Option<Vec<_>>>().ok_or("bad word")?;
        let t = path.get(1).and_then(|v| v.get("tree")).and_then(Tree::parse).ok_or("bad tree")?;
        let cache = Arc::new(ExactCache::new(T::ORDER));
        let board = Arc::new(RatioBoard::new());
        let judge: Judge<U<T>> = if T::ORDER == 0 { extreme_judge::<T>() } else { moment_judge::<T>(filter, cache, board, T::ORDER >= 4) };
        match run_tree::<T>(&w, &t, false) {
            Err(m) => Ok(vec![Violation { sig: format!("{}.from_par_iter:panic", T::NAME), detail: m }]),
            Ok(e) => Ok(judge(&w, &e.observe())),
        }
    }
}

pub fn plan(tier: Tier) -> Plan {
    let q = tier == Tier::Quick;
    let mut checks: Vec<Box<dyn Check>> = Vec::new();
    family::<Mean>(&mut checks, q);
    family::<Variance>(&mut checks, q);
    family::<Skewness>(&mut checks, q);
    family::<Kurtosis>(&mut checks, q);
    family::<Min>(&mut checks, q);
    family::<Max>(&mut checks, q);
    family::<Moments4>(&mut checks, q);
    family::<M6>(&mut checks, q);
    family::<M10>(&mut checks, q);
    // long inputs (10^5..10^6 items) through a few split-tree shapes
    let n = if q { (1 << 17) + 3 } else { 1_000_003 };
    for a in ["small", "off9"] {
        checks.push(super::longrun::longpar::<Mean>(a, 3, 2, n, filter));
        checks.push(super::longrun::longpar::<Variance>(a, 3, 2, n, filter));
        checks.push(super::longrun::longpar::<Skewness>(a, 3, 2, n, filter));
        checks.push(super::longrun::longpar::<Kurtosis>(a, 3, 2, n, filter));
        checks.push(super::longrun::longpar::<Moments4>(a, 3, 2, n, filter));
        checks.push(super::longrun::longpar::<M6>(a, 3, if q { 1 } else { 2 }, n, filter));
    }
    checks.push(super::longrun::longpar::<Min>("ext", 5, 2, n, filter));
    checks.push(super::longrun::longpar::<Max>("ext", 5, 2, n, filter));
    let reps = if q { 2 } else { 20 };
    checks.push(Box::new(RealRayon::<Mean> { reps, _t: Default::default() }));
    checks.push(Box::new(RealRayon::<Variance> { reps, _t: Default::default() }));
    checks.push(Box::new(RealRayon::<Kurtosis> { reps, _t: Default::default() }));
    checks.push(Box::new(RealRayon::<Min> { reps, _t: Default::default() }));
    checks.push(Box::new(RealRayon::<M6> { reps, _t: Default::default() }));
    let mut a = common_assumptions();
    a.push("rayon drives the consumer through its documented plumbing protocol (split_off_left / to_reducer / into_folder / consume / complete / reduce); its scheduler (deques, latches) is trusted and not model checked".into());
    Plan {
        rule: "long inputs: periodic inputs (every word of length <= 2 over 3 letters) of 2^17+3 (10^6+3 thorough) items through ten split-tree shapes (single leaf, balanced halving to four leaf sizes, left/right combs, one-item and empty first chunks); AND every word over 4-letter sub-alphabets up to the length bound x EVERY binary split tree over every composition into contiguous chunks (188 trees for 6 items; with up to two empty leaves for the shorter words; both execution orders at every node for trees of <= 4 leaves) x both FromParallelIterator impls (f64 and &f64), driven sequentially through rayon's public plumbing into the crate's real fold/reduce code; len exact, Min/Max exactly sequential, every statistic inside the single-pass envelope; real-rayon conformance: real pools of 1..16 threads x with_min_len/with_max_len over a logging producer, each recorded split tree replayed through the scripted driver and required to give the bit-identical estimator (counted in traces_validated_against_impl)".into(),
        assumptions: a,
        checks,
    }
}
