//! Shared pieces of the property modules: value alphabets (DESIGN.md §5), the exact-oracle
//! cache, the worst-ratio board, the generic add-only spec for `Uni` estimators, and the
//! `Check` trait the driver runs.

use crate::envelope::{expect_moment, judge, Expect};
use crate::exact::ExactStats;
use crate::explore::{explore, Limits, Spec, Stats, Violation};
use crate::subjects::{guarded, Obs, Stat, Uni, Val};
use serde_json::{json, Value};
use std::collections::{BTreeMap, HashMap};
use std::marker::PhantomData;
use std::sync::atomic::{AtomicU64, Ordering};
use std::sync::{Arc, Mutex};

/// set once by main: the thorough tier affords larger per-word state caps
pub static THOROUGH: std::sync::atomic::AtomicBool = std::sync::atomic::AtomicBool::new(false);
/// per-word cap on |R(w)| in the merge-tree exploration (never reached on the unchanged tree in the
/// quick tier; a broken merge can reach it, which is then reported as a cap, not as exhaustiveness)
pub fn word_cap() -> usize {
    if THOROUGH.load(std::sync::atomic::Ordering::Relaxed) {
        20_000
    } else {
        4_000
    }
}

// ---------------------------------------------------------------------------------------
// alphabets

pub fn alphabet(name: &str) -> Vec<f64> {
    let p = |e: i32| (2.0f64).powi(e);
    match name {
        "small" => vec![-2., -1., 0., 0.1, 1., 3.],
        "dec" => vec![0.1, 0.2, 0.3, 0.7, -0.7, 1e-3],
        "off9" => vec![1e9 - 3., 1e9 + 4., 1e9 + 7., 1e9 + 13., 1e9 + 16.],
        "off11" => vec![1e11 - 1., 1e11, 1e11 + 0.5, 1e11 + 1., 1e11 + 3.],
        "negoff" => vec![-1e9 - 7., -1e9 - 1., -1e9 + 0.25, -1e9 + 2.],
        "mixed" => vec![0., 1e-30, -1e-30, 1., 1e30, -1e30],
        "mixed-lo" => vec![0., 1e-30, -1e-30, 1.],
        "tail" => vec![0., 1e-3, 1., 100., -100.],
        "two01" => vec![0., 1.],
        "two13" => vec![-1., 3.],
        "two9" => vec![1e9, 1e9 + 1.],
        "ap" => vec![1., 2., 3., 4., 5.],
        "ill" => vec![1e15 - 1., 1e15, 1e15 + 1., 1e15 + 2.],
        "ulp" => vec![1. - p(-53), 1., 1. + p(-52), 1. + p(-51)],
        "den" => vec![0., 5e-324, 1e-310, -1e-310, 2.3e-308],
        "huge" => vec![1e150, -1e150, 1., 1e-150],
        "ext" => vec![f64::NEG_INFINITY, -1., -0.0, 0.0, 5e-324, 1., f64::INFINITY, f64::NAN, -f64::NAN],
        "extnan" => vec![-1., f64::NAN, 1., -f64::NAN, f64::INFINITY],
        "edge" => vec![f64::NEG_INFINITY, -1., -0.0, 0., 0.5, 1., 2., f64::INFINITY, f64::NAN],
        "qties" => vec![0., 1., 2., 3.],
        "qdist" => vec![-4., 0., 1., 2.5, 3., 7.],
        "tri" => vec![-1., 0.1, 3.],
        // well-conditioned data at very small / very large scale (scale invariance)
        "tiny" => vec![1e-9, 2e-9, 3e-9, 7e-9, -7e-9, 1e-11],
        "large" => vec![1e20, 2e20, 3e20, 7e20, -7e20, 1e18],
        // the small end of the stated value domain (|x| >= 1e-30)
        // ill-conditioned data (kappa ~ 1e11) at both ends of the value domain
        "offbig" => vec![9e29, 9e29 * (1. + 1e-11), 9e29 * (1. + 3e-11), 9e29 * (1. - 2e-11), 9e29 * (1. + 7e-11)],
        "offsmall" => vec![1e-30, 1e-30 * (1. + 1e-11), 1e-30 * (1. + 3e-11), 1e-30 * (1. + 5e-11), 1e-30 * (1. + 9e-11)],
        "tiny20" => vec![1e-20, 3e-20, -2e-20, 7e-21, 1e-30],
        "large25" => vec![1e25, 3e25, -2e25, 7e24, 1e30],
        "q07" => vec![-1., 0., 0.5, 2., 7.],
        // finite values near the overflow threshold (sums of two overflow, the values do not)
        "qhuge" => vec![-1.7e308, 0., 1.7e308],
        "q07huge" => vec![-1.7e308, -1.2e308, 0.5, 1e308, 1.5e308],
        // subnormal and barely normal observations (halving them is inexact)
        "qden" => vec![5e-324, 1.5e-323, -2.5e-323, 0., f64::from_bits(f64::MIN_POSITIVE.to_bits() + 1)],
        // zero as the running extreme / mean
        "zero3" => vec![0., -1., 2.],
        "const1" => vec![2.5],
        "weights" => vec![0., 1e-6, 0.5, 1., 3., 1e6],
        _ => panic!("unknown alphabet {name}"),
    }
}

/// first `k` letters of an alphabet
pub fn sub_alphabet(name: &str, k: usize) -> Vec<f64> {
    let mut a = alphabet(name);
    a.truncate(k);
    a
}

pub fn fshow(x: f64) -> Value {
    json!({"v": format!("{x:?}"), "bits": format!("{:016x}", x.to_bits())})
}
pub fn fparse(v: &Value) -> Option<f64> {
    let b = v.get("bits")?.as_str()?;
    Some(f64::from_bits(u64::from_str_radix(b, 16).ok()?))
}

// ---------------------------------------------------------------------------------------
// exact-oracle cache (per multiset)

pub fn ms_key(sorted_bits: &[u64]) -> Vec<u64> {
    sorted_bits.to_vec()
}

/// sorted multiset of f64 (total order by value then bits), as bit patterns
pub fn ms_insert(ms: &[u64], x: f64) -> Vec<u64> {
    let mut v = ms.to_vec();
    let b = x.to_bits();
    let pos = v
        .binary_search_by(|p| {
            let pf = f64::from_bits(*p);
            pf.partial_cmp(&x).unwrap_or(std::cmp::Ordering::Equal).then(p.cmp(&b))
        })
        .unwrap_or_else(|e| e);
    v.insert(pos, b);
    v
}
pub fn ms_of(xs: &[f64]) -> Vec<u64> {
    let mut v: Vec<u64> = Vec::new();
    for &x in xs {
        v = ms_insert(&v, x);
    }
    v
}

pub struct ExactCache {
    order: usize,
    shards: Vec<Mutex<HashMap<Vec<u64>, Arc<ExactStats>>>>,
}
impl ExactCache {
    pub fn new(order: usize) -> ExactCache {
        ExactCache { order: order.max(2), shards: (0..64).map(|_| Mutex::new(HashMap::new())).collect() }
    }
    pub fn get(&self, ms: &[u64]) -> Arc<ExactStats> {
        let mut h: u64 = 0xcbf29ce484222325;
        for b in ms {
            h ^= *b;
            h = h.wrapping_mul(0x100000001b3);
        }
        let sh = &self.shards[(h >> 7) as usize % 64];
        if let Some(e) = sh.lock().unwrap().get(ms) {
            return e.clone();
        }
        let xs: Vec<f64> = ms.iter().map(|b| f64::from_bits(*b)).collect();
        let e = Arc::new(ExactStats::new(&xs, self.order));
        sh.lock().unwrap().insert(ms.to_vec(), e.clone());
        e
    }
    pub fn len(&self) -> usize {
        self.shards.iter().map(|s| s.lock().unwrap().len()).sum()
    }
}

// ---------------------------------------------------------------------------------------
// worst observed error / envelope ratio, per statistic (diagnostic in the evidence)

pub struct RatioBoard {
    cells: HashMap<Stat, AtomicU64>,
}
impl RatioBoard {
    pub fn new() -> RatioBoard {
        use Stat::*;
        let mut all = vec![
            Mean, PopVar, SampleVar, VarOfMean, Error, Skewness, Kurtosis, SampleSkewness, SampleExKurt, Estimate, Min, Max, Quantile,
            P, WMean, SumW, SumWSq, EffLen, VarOfWMean, WError, UnweightedMean, MeanX, MeanY, SampleVarX, PopVarX, SampleVarY, PopVarY,
            SampleCov, PopCov, Pearson,
        ];
        for p in 0..=12u8 {
            all.push(Central(p));
            all.push(Standardized(p));
        }
        RatioBoard { cells: all.into_iter().map(|s| (s, AtomicU64::new(0))).collect() }
    }
    pub fn note(&self, s: Stat, r: f64) {
        if let Some(c) = self.cells.get(&s) {
            note_ratio(c, r);
        }
    }
    pub fn dump(&self) -> Value {
        let mut m: BTreeMap<String, f64> = BTreeMap::new();
        for (k, v) in self.cells.iter() {
            let r = f64::from_bits(v.load(Ordering::Relaxed));
            if r > 0.0 {
                let e = m.entry(k.name()).or_insert(0.0);
                if r > *e {
                    *e = r;
                }
            }
        }
        json!(m)
    }
}
pub fn note_ratio(cell: &AtomicU64, r: f64) {
    if r.is_finite() && r >= 0.0 {
        cell.fetch_max(r.to_bits(), Ordering::Relaxed);
    }
}

// ---------------------------------------------------------------------------------------
// the driver-facing trait

pub trait Check: Sync + Send {
    fn name(&self) -> String;
    fn run(&self) -> Stats;
    /// re-execute a recorded path on the real code with plain calls; returns the violations
    /// it exhibits
    fn replay(&self, path: &[Value]) -> Result<Vec<Violation>, String>;
    /// diagnostics for the evidence file
    fn extra(&self) -> Value {
        Value::Null
    }
}

pub struct Bfs<S: Spec> {
    pub spec: S,
    pub lim: Limits,
    pub extra: Box<dyn Fn() -> Value + Send + Sync>,
}
impl<S: Spec> Bfs<S> {
    pub fn new(spec: S, depth: usize) -> Bfs<S> {
        Bfs { spec, lim: Limits { max_depth: depth, max_states: 40_000_000, max_wall_s: 3600.0 }, extra: Box::new(|| Value::Null) }
    }
}

pub trait ReplaySpec: Spec {
    fn parse_op(&self, v: &Value) -> Option<Self::Op>;
}

impl<S: ReplaySpec + Send> Check for Bfs<S> {
    fn name(&self) -> String {
        self.spec.name()
    }
    fn run(&self) -> Stats {
        explore(&self.spec, &self.lim)
    }
    fn replay(&self, path: &[Value]) -> Result<Vec<Violation>, String> {
        replay_spec(&self.spec, path)
    }
    fn extra(&self) -> Value {
        (self.extra)()
    }
}

pub fn replay_spec<S: ReplaySpec>(spec: &S, path: &[Value]) -> Result<Vec<Violation>, String> {
    let inits = spec.init();
    let mut it = path.iter();
    let mut idx = 0usize;
    let mut rest: Vec<&Value> = Vec::new();
    if let Some(first) = it.next() {
        if let Some(i) = first.get("init").and_then(|v| v.as_u64()) {
            idx = i as usize;
        } else {
            rest.push(first);
        }
    }
    rest.extend(it);
    let mut s = inits.get(idx).ok_or("init index out of range")?.clone();
    let mut out = spec.check_init(&s);
    for v in rest {
        let op = spec.parse_op(v).ok_or_else(|| format!("cannot parse op {v}"))?;
        let t = spec.step(&s, &op);
        out = spec.check(&s, &op, &t); // violations of the last transition decide
        s = t;
    }
    Ok(out)
}

// ---------------------------------------------------------------------------------------
// generic add-only spec over a value alphabet for the moment family

#[derive(Clone)]
pub struct AddState<T: Uni> {
    pub est: Result<T, String>, // Err: add panicked
    pub ms: Vec<u64>,
}

pub type StatFilter = fn(Stat) -> bool;

pub struct AddSpec<T: Uni> {
    pub prop: &'static str,
    pub alpha_name: String,
    pub alpha: Vec<f64>,
    /// statistics judged by this property (others are observed but left to their own check)
    pub filter: StatFilter,
    /// envelope domain restriction on max|x|^N (C04): skip judging when n·M^N ≥ 1e300
    pub overflow_guard: bool,
    pub cache: Arc<ExactCache>,
    pub board: Arc<RatioBoard>,
    pub _t: PhantomData<T>,
}

impl<T: Uni> AddSpec<T> {
    pub fn new(prop: &'static str, alpha_name: &str, filter: StatFilter) -> AddSpec<T> {
        AddSpec {
            prop,
            alpha_name: alpha_name.to_string(),
            alpha: alphabet(alpha_name),
            filter,
            overflow_guard: false,
            cache: Arc::new(ExactCache::new(T::ORDER)),
            board: Arc::new(RatioBoard::new()),
            _t: PhantomData,
        }
    }
}

/// The oracle shared by every moment-family check: judge an observation against the exact
/// statistics of the multiset it must summarise.
pub fn judge_moment_obs(
    tname: &str,
    obs: &Obs,
    ex: &ExactStats,
    filter: StatFilter,
    overflow_order: Option<usize>,
    board: &RatioBoard,
) -> Vec<Violation> {
    let mut out = Vec::new();
    match &obs.len {
        Some(Ok(l)) if *l == ex.n => {}
        Some(l) => out.push(Violation { sig: format!("{tname}.len:wrong"), detail: format!("{tname}.len() = {l:?}, expected {}", ex.n) }),
        None => {}
    }
    if let Some(ie) = &obs.is_empty {
        if *ie != Ok(ex.n == 0) {
            out.push(Violation { sig: format!("{tname}.is_empty:wrong"), detail: format!("{tname}.is_empty() = {ie:?} with {} observations", ex.n) });
        }
    }
    if let Some(order) = overflow_order {
        // C04 domain: n·max|x|^N < 1e300
        if (ex.n as f64) * ex.max_abs.powi(order as i32) >= 1e300 {
            return out;
        }
    }
    for (stat, val) in &obs.vals {
        if !filter(*stat) {
            continue;
        }
        let exp = if *stat == Stat::Estimate { Expect::Skip("estimate: C20") } else { expect_moment(*stat, ex) };
        let j = judge(&exp, val);
        if let Some(r) = j.ratio {
            board.note(*stat, r);
        }
        if !j.ok {
            let class = match (&exp, val) {
                (_, Val::Panic(_)) => "panic",
                (Expect::Nan, _) => "sentinel",
                (Expect::Exactly(_), _) => "exact",
                (Expect::PanicZeroVariance, _) => "missing-assert",
                (_, Val::F(g)) if g.is_nan() => "nan",
                _ => "envelope",
            };
            out.push(Violation {
                sig: format!("{tname}.{}:{class}", stat.name()),
                detail: format!("{tname}::{} = {} but expected {} for n = {} (kappa = {:.3e})", stat.name(), val.show(), j.expected, ex.n, ex.kappa),
            });
        }
    }
    out
}

impl<T: Uni> Spec for AddSpec<T> {
    type State = AddState<T>;
    type Op = f64;
    fn name(&self) -> String {
        format!("{}/add/{}/{}", self.prop, T::NAME, self.alpha_name)
    }
    fn init(&self) -> Vec<Self::State> {
        vec![AddState { est: Ok(T::fresh()), ms: vec![] }]
    }
    fn ops(&self, s: &Self::State) -> Vec<f64> {
        if s.est.is_err() {
            return vec![];
        }
        self.alpha.clone()
    }
    fn step(&self, s: &Self::State, op: &f64) -> Self::State {
        let mut e = s.est.clone().unwrap();
        let x = *op;
        let est = guarded(move || {
            e.add1(x);
            e
        });
        AddState { est, ms: ms_insert(&s.ms, x) }
    }
    fn key(&self, s: &Self::State) -> String {
        match &s.est {
            Ok(e) => format!("{:?}|{:x?}", e, s.ms),
            Err(m) => format!("panic:{m}|{:x?}", s.ms),
        }
    }
    fn check(&self, _s: &Self::State, _op: &f64, t: &Self::State) -> Vec<Violation> {
        match &t.est {
            Err(m) => vec![Violation { sig: format!("{}.add:panic", T::NAME), detail: format!("{}::add panicked: {m}", T::NAME) }],
            Ok(e) => {
                let ex = self.cache.get(&t.ms);
                let obs = e.observe();
                judge_moment_obs(T::NAME, &obs, &ex, self.filter, if self.overflow_guard { Some(T::ORDER) } else { None }, &self.board)
            }
        }
    }
    fn outcome(&self, s: &Self::State) -> String {
        match &s.est {
            Ok(e) => e.observe().fingerprint(),
            Err(_) => "panic".into(),
        }
    }
    fn show_op(&self, op: &f64) -> Value {
        json!({"add": fshow(*op)})
    }
    fn nontrivial(&self, s: &Self::State) -> bool {
        if s.ms.is_empty() {
            return false;
        }
        let ex = self.cache.get(&s.ms);
        crate::envelope::in_domain(&ex)
    }
}
impl<T: Uni> ReplaySpec for AddSpec<T> {
    fn parse_op(&self, v: &Value) -> Option<f64> {
        fparse(v.get("add")?)
    }
}

pub fn add_check<T: Uni>(prop: &'static str, alpha: &str, depth: usize, filter: StatFilter, overflow_guard: bool) -> Box<dyn Check> {
    let mut spec = AddSpec::<T>::new(prop, alpha, filter);
    spec.overflow_guard = overflow_guard;
    let board = spec.board.clone();
    let cache = spec.cache.clone();
    let mut b = Bfs::new(spec, depth);
    b.extra = Box::new(move || json!({"worst_error_over_envelope": board.dump(), "distinct_multisets": cache.len()}));
    Box::new(b)
}

// ---------------------------------------------------------------------------------------
// BFS check with an independent stateright enumeration of the same spec

pub struct CrossBfs<S: Spec> {
    pub spec: Arc<S>,
    pub lim: Limits,
}
impl<S: ReplaySpec + Send + 'static> Check for CrossBfs<S>
where
    S::Op: std::fmt::Debug + PartialEq,
{
    fn name(&self) -> String {
        format!("{}+stateright", self.spec.name())
    }
    fn run(&self) -> Stats {
        let mut st = explore(&*self.spec, &self.lim);
        st.spec = self.name();
        let sr = crate::sr::cross_check(self.spec.clone(), self.lim.max_depth);
        st.stateright_states = Some(sr.unique_states as u64);
        let mine_violated = !st.found.is_empty();
        if sr.violated != mine_violated {
            st.engine_error = Some(format!("explorer and stateright disagree on the verdict of {} (explorer violated: {mine_violated}, stateright: {})", self.name(), sr.violated));
        } else if !mine_violated && st.capped.is_none() && sr.unique_states as u64 != st.states {
            st.engine_error = Some(format!("explorer found {} states, stateright {} for {}", st.states, sr.unique_states, self.name()));
        }
        st
    }
    fn replay(&self, path: &[Value]) -> Result<Vec<Violation>, String> {
        replay_spec(&*self.spec, path)
    }
}
pub fn cross<S: ReplaySpec + Send + 'static>(spec: S, depth: usize) -> Box<dyn Check>
where
    S::Op: std::fmt::Debug + PartialEq,
{
    Box::new(CrossBfs { spec: Arc::new(spec), lim: Limits { max_depth: depth, max_states: 40_000_000, max_wall_s: 3600.0 } })
}
