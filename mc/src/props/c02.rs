//! C02 — merge is equivalent to having seen the concatenated data (moment family).

use super::chunky_impls::U;
use super::common::*;
use super::interval::{IntervalCheck, Judge};
use super::{common_assumptions, Plan};
use crate::report::Tier;
use crate::subjects::*;
use average::{Kurtosis, Mean, Moments4, Skewness, Variance};
use serde_json::json;
use std::sync::Arc;

fn filter(s: Stat) -> bool {
    !matches!(s, Stat::Estimate | Stat::SampleSkewness | Stat::SampleExKurt)
}

pub fn moment_judge<T: Uni>(filter: StatFilter, cache: Arc<ExactCache>, board: Arc<RatioBoard>, guard: bool) -> Judge<U<T>>
where
    U<T>: super::interval::Chunky<Item = f64>,
{
    Box::new(move |items: &[f64], obs: &Obs| {
        if items.is_empty() {
            let mut out = Vec::new();
            if let Some(l) = &obs.len {
                if *l != Ok(0) {
                    out.push(crate::explore::Violation { sig: format!("{}.len:wrong", T::NAME), detail: format!("empty estimator reports len {l:?}") });
                }
            }
            if let Some(e) = &obs.is_empty {
                if *e != Ok(true) {
                    out.push(crate::explore::Violation { sig: format!("{}.is_empty:wrong", T::NAME), detail: format!("empty estimator reports is_empty {e:?}") });
                }
            }
            return out;
        }
        let ex = cache.get(&ms_of(items));
        judge_moment_obs(T::NAME, obs, &ex, filter, if guard { Some(T::ORDER) } else { None }, &board)
    })
}

pub fn merge_check<T: UniMerge + UniIngest>(prop: &'static str, alpha_name: &str, k: usize, max_len: usize, filter: StatFilter) -> Box<dyn Check> {
    let cache = Arc::new(ExactCache::new(T::ORDER));
    let board = Arc::new(RatioBoard::new());
    let b2 = board.clone();
    let c2 = cache.clone();
    Box::new(IntervalCheck::<U<T>> {
        prop,
        alpha_name: format!("{alpha_name}{k}"),
        alpha: sub_alphabet(alpha_name, k),
        max_len,
        cap_per_word: word_cap(),
        judge: moment_judge::<T>(filter, cache, board, T::ORDER >= 4),
        extra: Box::new(move || json!({"worst_error_over_envelope": b2.dump(), "distinct_multisets": c2.len()})),
    })
}

fn family<T: UniMerge + UniIngest>(checks: &mut Vec<Box<dyn Check>>, tier: Tier) {
    let q = tier == Tier::Quick;
    for a in ["small", "dec", "off9", "off11", "mixed", "tail"] {
        if a == "mixed" && T::ORDER >= 8 {
            // n·max|x|^N < 1e300 excludes ±1e30 for N >= 8
            checks.push(merge_check::<T>("C02", "mixed-lo", 4, if q { 5 } else { 6 }, filter));
            continue;
        }
        checks.push(merge_check::<T>("C02", a, 4, if q { 5 } else { 6 }, filter));
    }
    if !q {
        if T::ORDER <= 2 {
            // the low orders are cheap enough for 7-letter words over 4 letters
            checks.push(merge_check::<T>("C02", "small", 4, 7, filter));
            checks.push(merge_check::<T>("C02", "off9", 4, 7, filter));
        }
        checks.push(merge_check::<T>("C02", "two13", 2, 9, filter));
        checks.push(merge_check::<T>("C02", "tri", 3, if T::ORDER >= 5 { 7 } else { 8 }, filter));
    } else {
        checks.push(merge_check::<T>("C02", "two13", 2, 7, filter));
    }
    // large n through self-merges: n = |w|·2^k and cross merges of two such chains
    for a in ["small", "off9", "tail"] {
        checks.push(super::longrun::doubling::<T>("C02", a, 3, 2, if q { 34 } else { 40 }, filter, T::ORDER >= 4));
    }
}

pub fn plan(tier: Tier) -> Plan {
    let mut checks: Vec<Box<dyn Check>> = Vec::new();
    family::<Mean>(&mut checks, tier);
    family::<Variance>(&mut checks, tier);
    family::<Skewness>(&mut checks, tier);
    family::<Kurtosis>(&mut checks, tier);
    family::<Moments4>(&mut checks, tier);
    family::<M5>(&mut checks, tier);
    family::<M6>(&mut checks, tier);
    family::<M8>(&mut checks, tier);
    family::<M10>(&mut checks, tier);
    Plan {
        rule: "large n as a finite family: for every pair of words of length <= 2 the chains w·2^i built by merging an estimator with itself i times (i <= 24 quick / 40 thorough) and every cross merge of the two chains in both directions, judged against the exact statistics of the weighted multiset; AND for every word over 4-letter sub-alphabets (and 2-/3-letter alphabets to greater length) up to the length bound: the set R(w) of ALL estimator states producible by any composition of w into contiguous, possibly empty chunks and any binary merge tree with either merge direction at every node, computed bottom-up on the real collect()/merge(); every state of every R(w) judged against the exact statistics of w under the single-pass envelopes; states are distinct (word, Debug string) pairs, non-trivial for |w| >= 2".into(),
        assumptions: common_assumptions(),
        checks,
    }
}
