//! C12 — histogram construction accepts exactly the valid edge lists.

use super::common::*;
use super::hist06::all_lists;
use super::{common_assumptions, Plan};
use crate::exact::Rat;
use crate::explore::{Found, Stats, Violation};
use crate::refmodels::hist::{ref_from_ranges, RefRangeErr};
use crate::report::Tier;
use crate::subjects::*;
use average::InvalidRangeError;
use rayon::prelude::*;
use serde_json::{json, Value};
use std::collections::BTreeMap;
use std::marker::PhantomData;

fn list_json(l: &[f64]) -> Value {
    Value::Array(l.iter().map(|x| fshow(*x)).collect())
}
fn list_parse(v: &Value) -> Option<Vec<f64>> {
    v.as_array()?.iter().map(fparse).collect()
}

fn judge_from_ranges<H: Hist>(input: &[f64]) -> Vec<Violation> {
    let want = ref_from_ranges(H::LEN, input);
    let inp = input.to_vec();
    let got = guarded(move || H::from_ranges_(inp));
    let mut out = Vec::new();
    let kind = |input: &[f64]| -> &'static str {
        if input.len() < H::LEN + 1 {
            "short-input"
        } else if input.len() > H::LEN + 1 {
            "long-input"
        } else {
            "exact-length"
        }
    };
    match got {
        Err(m) => out.push(Violation { sig: format!("hist.from_ranges:{}:panic", kind(input)), detail: format!("{}::from_ranges({input:?}) panicked: {m}", H::NAME) }),
        Ok(got) => match (want, got) {
            (Ok(w), Ok(h)) => {
                let r = h.ranges_();
                if r.len() != w.len() || r.iter().zip(w.iter()).any(|(a, b)| a.to_bits() != b.to_bits()) {
                    out.push(Violation { sig: "hist.from_ranges:ranges-not-preserved".into(), detail: format!("{}::from_ranges({input:?}).ranges() = {r:?}", H::NAME) });
                }
                if h.bins_().iter().any(|b| *b != 0) || h.bins_().len() != H::LEN {
                    out.push(Violation { sig: "hist.from_ranges:bins-not-zero".into(), detail: format!("{}::from_ranges({input:?}).bins() = {:?}", H::NAME, h.bins_()) });
                }
            }
            (Err(w), Err(g)) => {
                let same = matches!((w, g), (RefRangeErr::NaN, InvalidRangeError::NaN) | (RefRangeErr::NotSorted, InvalidRangeError::NotSorted) | (RefRangeErr::NotEnoughRanges, InvalidRangeError::NotEnoughRanges));
                if !same {
                    out.push(Violation {
                        sig: format!("hist.from_ranges:{}:wrong-error:{w:?}-expected", kind(input)),
                        detail: format!("{}::from_ranges({input:?}) = Err({g:?}), the first offending position gives {w:?}", H::NAME),
                    });
                }
            }
            (Ok(_), Err(g)) => out.push(Violation { sig: format!("hist.from_ranges:{}:rejects-valid", kind(input)), detail: format!("{}::from_ranges({input:?}) = Err({g:?}) but the first LEN+1 values are valid", H::NAME) }),
            (Err(w), Ok(h)) => out.push(Violation {
                sig: format!("hist.from_ranges:{}:accepts-invalid:{w:?}", kind(input)),
                detail: format!("{}::from_ranges({input:?}) succeeded with ranges {:?}; expected Err({w:?})", H::NAME, h.ranges_()),
            }),
        },
    }
    out
}

pub struct RangesSweep<H: Hist> {
    pub family: &'static str,
    pub max_extra: usize,
    pub _h: PhantomData<H>,
}

fn defect_lists<H: Hist>() -> Vec<Vec<f64>> {
    // a valid base list with every single defect at every position and every pair of defects
    let n = H::LEN + 1;
    let base: Vec<f64> = (0..n + 2).map(|i| (i / 2) as f64).collect(); // repeated edges, two extra values
    let defects: Vec<f64> = vec![f64::NAN, -1.0, f64::NEG_INFINITY, f64::INFINITY];
    let mut out = vec![base.clone(), base[..n].to_vec(), base[..n - 1].to_vec(), vec![]];
    let positions: Vec<usize> = if n <= 12 { (0..n + 2).collect() } else { (0..n + 2).filter(|i| *i < 4 || *i + 5 > n || i % 17 == 0).collect() };
    for &i in &positions {
        for &d in &defects {
            let mut l = base.clone();
            l[i] = d;
            out.push(l.clone());
            for &j in &positions {
                if j <= i {
                    continue;
                }
                for &d2 in &defects {
                    let mut l2 = l.clone();
                    l2[j] = d2;
                    out.push(l2);
                }
            }
            // truncations after the defect
            for cut in [i + 1, n - 1, n, n + 1] {
                if cut <= l.len() {
                    out.push(l[..cut].to_vec());
                }
            }
        }
    }
    out
}

impl<H: Hist> RangesSweep<H> {
    fn inputs(&self) -> Vec<Vec<f64>> {
        match self.family {
            "edge-lists" => {
                let a = alphabet("edge");
                let mut v = vec![vec![]];
                for n in 1..=H::LEN + 1 + self.max_extra {
                    v.extend(all_lists(&a, n));
                }
                v
            }
            "defects" => defect_lists::<H>(),
            // neighbouring edges that differ by less than one part in 2^52 (an order test with a
            // tolerance accepts a decrease that small)
            "near-ties" => {
                let up = crate::refmodels::hist::next_up;
                let down = crate::refmodels::hist::next_down;
                let a = vec![0., 2e-17, 3e-17, -3e-17, down(1.0), 1.0, up(1.0), up(up(1.0)), 1e15, down(1e15), f64::NAN];
                let mut v = Vec::new();
                for n in 1..=H::LEN + 2 {
                    v.extend(all_lists(&a, n));
                }
                v
            }
            _ => panic!(),
        }
    }
}

impl<H: Hist> Check for RangesSweep<H> {
    fn name(&self) -> String {
        format!("C12/from_ranges/{}/{}+{}", H::NAME, self.family, self.max_extra)
    }
    fn run(&self) -> Stats {
        let t0 = std::time::Instant::now();
        let mut st = Stats { spec: self.name(), depth_requested: H::LEN + 1 + self.max_extra, depth_completed: H::LEN + 1 + self.max_extra, closed: true, ..Default::default() };
        let inputs = self.inputs();
        let res: Vec<(String, Vec<Violation>)> = inputs.par_iter().map(|l| (format!("{:?}", ref_from_ranges(H::LEN, l).map(|_| ())), judge_from_ranges::<H>(l))).collect();
        let mut found: BTreeMap<String, Found> = BTreeMap::new();
        let mut outcomes = std::collections::BTreeSet::new();
        for (l, (o, vs)) in inputs.iter().zip(res) {
            st.states += 1;
            st.transitions += 1;
            if o != "Ok(())" || l.len() != H::LEN + 1 {
                st.nontrivial_states += 1;
            }
            outcomes.insert(o);
            for v in vs {
                let e = found.entry(v.sig.clone()).or_insert(Found { sig: v.sig, detail: v.detail, path: vec![json!({"from_ranges": list_json(l)})], count: 0 });
                e.count += 1;
            }
        }
        st.maximal = st.states;
        st.outcomes = outcomes.len() as u64;
        st.frontier_sizes = vec![st.states];
        for i in [inputs.len() / 3, inputs.len() - 1] {
            st.samples.push(json!({"spec": self.name(), "history": [{"from_ranges": inputs[i].iter().map(|x| format!("{x:?}")).collect::<Vec<_>>()}]}));
        }
        st.found = found.into_values().collect();
        st.wall_s = t0.elapsed().as_secs_f64();
        st
    }
    fn replay(&self, path: &[Value]) -> Result<Vec<Violation>, String> {
        let l = path.first().and_then(|v| v.get("from_ranges")).and_then(list_parse).ok_or("bad path")?;
        Ok(judge_from_ranges::<H>(&l))
    }
}

// ---------------------------------------------------------------------------------------
// with_const_width

fn judge_const_width<H: Hist>(start: f64, end: f64) -> Vec<Violation> {
    let mut out = Vec::new();
    let h = match guarded(|| H::with_const_width_(start, end)) {
        Err(m) => return vec![Violation { sig: "hist.with_const_width:panic".into(), detail: format!("{}::with_const_width({start:?}, {end:?}) panicked: {m}", H::NAME) }],
        Ok(h) => h,
    };
    let r = h.ranges_();
    let desc = || format!("{}::with_const_width({start:?}, {end:?})", H::NAME);
    if r.len() != H::LEN + 1 {
        out.push(Violation { sig: "hist.with_const_width:wrong-number-of-edges".into(), detail: format!("{}: {} edges", desc(), r.len()) });
        return out;
    }
    if r[0].to_bits() != start.to_bits() && !(r[0] == start) {
        out.push(Violation { sig: "hist.with_const_width:first-edge-not-start".into(), detail: format!("{}: first edge {:?}", desc(), r[0]) });
    }
    if !r.windows(2).all(|w| w[0] <= w[1]) {
        out.push(Violation { sig: "hist.with_const_width:edges-decrease".into(), detail: format!("{}: edges {:?}", desc(), r) });
    }
    if h.bins_().iter().any(|b| *b != 0) {
        out.push(Violation { sig: "hist.with_const_width:bins-not-zero".into(), detail: desc() });
    }
    let scale = start.abs().max(end.abs());
    // one ulp of the larger magnitude (upper bound); never below the subnormal spacing
    let ulp = (scale * f64::EPSILON).max(5e-324);
    let tol = 8.0 * ulp;
    let (s, e) = (Rat::from_f64(start), Rat::from_f64(end));
    for (i, ri) in r.iter().enumerate() {
        // exact start + i·(end − start)/LEN
        let exact = s.add(&e.sub(&s).mul_u64(i as u64).div_u64(H::LEN as u64));
        let d = exact.abs_diff_f64(*ri);
        if !(d <= tol) {
            out.push(Violation {
                sig: format!("hist.with_const_width:edge-off:{}", if i == H::LEN { "last" } else { "interior" }),
                detail: format!("{}: edge {i} = {:?}, exact {:?}, |diff| = {d:e} > 8 ulp = {tol:e}", desc(), ri, exact.to_f64()),
            });
            break;
        }
    }
    out
}

pub struct ConstWidth<H: Hist> {
    pub kmax: i32,
    pub _h: PhantomData<H>,
}
fn lattice(kmax: i32) -> Vec<f64> {
    let mut v = vec![0.0];
    for k in -kmax..=kmax {
        for a in [1.0, 1.5, 3.14159, 9.99] {
            let x = a * (10.0f64).powi(k);
            v.push(x);
            v.push(-x);
        }
    }
    v.sort_by(|a, b| a.partial_cmp(b).unwrap());
    v
}
impl<H: Hist> Check for ConstWidth<H> {
    fn name(&self) -> String {
        format!("C12/with_const_width/{}/k{}", H::NAME, self.kmax)
    }
    fn run(&self) -> Stats {
        let t0 = std::time::Instant::now();
        let l = lattice(self.kmax);
        let mut pairs = Vec::new();
        for (i, a) in l.iter().enumerate() {
            for b in &l[i + 1..] {
                if a < b {
                    pairs.push((*a, *b));
                }
            }
        }
        // bins narrower than an ulp: end a few floating-point neighbours above start
        for a in [1.0, 0.3, -0.7, 1e15 + 3., 5e-324, 1e-300, -1e9, 4.0, 0.0, -0.0] {
            for k in [1u32, 2, 3, 5, 8, H::LEN as u32 - 1, H::LEN as u32, H::LEN as u32 + 1, 2 * H::LEN as u32 + 1, 100] {
                let mut b = a;
                for _ in 0..k.max(1) {
                    b = crate::refmodels::hist::next_up(b);
                }
                if a < b {
                    pairs.push((a, b));
                }
            }
        }
        let mut st = Stats { spec: self.name(), depth_requested: 1, depth_completed: 1, closed: true, ..Default::default() };
        let res: Vec<Vec<Violation>> = pairs.par_iter().map(|(a, b)| judge_const_width::<H>(*a, *b)).collect();
        let mut found: BTreeMap<String, Found> = BTreeMap::new();
        for ((a, b), vs) in pairs.iter().zip(res) {
            for v in vs {
                let e = found.entry(v.sig.clone()).or_insert(Found { sig: v.sig, detail: v.detail, path: vec![json!({"with_const_width": [fshow(*a), fshow(*b)]})], count: 0 });
                e.count += 1;
            }
        }
        st.states = pairs.len() as u64;
        st.transitions = pairs.len() as u64;
        st.maximal = st.states;
        st.nontrivial_states = st.states;
        st.outcomes = st.states;
        st.frontier_sizes = vec![st.states];
        let (a, b) = pairs[pairs.len() / 2];
        st.samples.push(json!({"spec": self.name(), "history": [{"with_const_width": [format!("{a:?}"), format!("{b:?}")]}]}));
        st.found = found.into_values().collect();
        st.wall_s = t0.elapsed().as_secs_f64();
        st
    }
    fn replay(&self, path: &[Value]) -> Result<Vec<Violation>, String> {
        let a = path.first().and_then(|v| v.get("with_const_width")).and_then(|a| a.as_array()).ok_or("bad path")?;
        Ok(judge_const_width::<H>(fparse(&a[0]).ok_or("bad")?, fparse(&a[1]).ok_or("bad")?))
    }
}

fn sweep<H: Hist>(family: &'static str, max_extra: usize) -> Box<dyn Check> {
    Box::new(RangesSweep::<H> { family, max_extra, _h: PhantomData })
}
fn cw<H: Hist>(kmax: i32) -> Box<dyn Check> {
    Box::new(ConstWidth::<H> { kmax, _h: PhantomData })
}

pub fn plan(tier: Tier) -> Plan {
    let q = tier == Tier::Quick;
    let mut checks: Vec<Box<dyn Check>> = Vec::new();
    checks.push(sweep::<H1>("edge-lists", 2));
    checks.push(sweep::<H2>("edge-lists", 2));
    checks.push(sweep::<H3>("edge-lists", 2));
    checks.push(sweep::<H4>("edge-lists", if q { 1 } else { 2 }));
    checks.push(sweep::<H1>("near-ties", 1));
    checks.push(sweep::<H2>("near-ties", 1));
    checks.push(sweep::<H3>("near-ties", 1));
    checks.push(sweep::<H1>("defects", 2));
    checks.push(sweep::<H4>("defects", 2));
    checks.push(sweep::<H10>("defects", 2));
    checks.push(sweep::<average::Histogram10>("defects", 2));
    checks.push(sweep::<H100>("defects", 2));
    let k = if q { 8 } else { 15 };
    checks.push(cw::<H1>(k));
    checks.push(cw::<H2>(k));
    checks.push(cw::<H3>(k));
    checks.push(cw::<H4>(k));
    checks.push(cw::<H10>(k));
    checks.push(cw::<average::Histogram10>(k));
    checks.push(cw::<H100>(if q { 4 } else { 15 }));
    #[cfg(feature = "nightly")]
    {
        checks.push(sweep::<K1>("edge-lists", 2));
        checks.push(sweep::<K2>("edge-lists", 2));
        checks.push(sweep::<K3>("edge-lists", 2));
        checks.push(sweep::<K4>("edge-lists", 1));
        checks.push(sweep::<K10>("defects", 2));
        checks.push(sweep::<K100>("defects", 2));
        checks.push(cw::<K1>(k));
        checks.push(cw::<K3>(k));
        checks.push(cw::<K10>(k));
        checks.push(cw::<K100>(k));
    }
    Plan {
        rule: "from_ranges: LEN 1..4: every list of length 0..LEN+1+extra over the 9-value lattice {-inf,-1,-0.0,0,0.5,1,2,+inf,NaN}; LEN 10/100: a valid base list (with repeated edges and two extra values) with every single defect (NaN, inversion, -inf, +inf) at every position, every pair of defects and truncations; acceptance, error kind of the first offending position, ranges() bit-for-bit, zero counts; with_const_width: every pair start < end from {0, ±a·10^k} over 2·kmax+1 orders of magnitude, first edge == start, non-decreasing, every edge within 8 ulp(max(|start|,|end|)) of the exact start + i(end-start)/LEN; non-trivial = inputs that are invalid or not of length LEN+1".into(),
        assumptions: common_assumptions(),
        checks,
    }
}
