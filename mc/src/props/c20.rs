//! C20 — every ingestion path builds the same estimator; concatenate! adds nothing.

use super::chunky_impls::*;
use super::common::*;
use super::hist06::all_lists;
use super::interval::Chunky;
use super::{common_assumptions, Plan};
use crate::explore::{Found, Spec, Stats, Violation};
use crate::report::Tier;
use crate::subjects::*;
use average::{concatenate, Covariance, Estimate, Kurtosis, Max, Mean, Min, Moments4, Quantile, Skewness, Variance, WeightedMean, WeightedMeanWithError};
use rayon::prelude::*;
use serde_json::{json, Value};

#[derive(Clone, Debug, PartialEq)]
pub enum IOp<I> {
    AddLoop(Vec<I>),
    ExtendVals(Vec<I>),
    ExtendRefs(Vec<I>),
    /// the same through an iterator that reports no useful size_hint
    ExtendValsOpaque(Vec<I>),
    ExtendRefsOpaque(Vec<I>),
}

#[derive(Clone)]
pub struct IState<T: Ingest> {
    e: Result<T, String>,
    seq: Vec<T::Item>,
    how: &'static str,
}

pub struct IngestSpec<T: Ingest> {
    pub alpha_name: String,
    pub alpha: Vec<T::Item>,
    pub max_len: usize,
    pub max_piece: usize,
}

fn words<I: Copy>(alpha: &[I], len: usize) -> Vec<Vec<I>> {
    let idx: Vec<f64> = (0..alpha.len()).map(|i| i as f64).collect();
    if len == 0 {
        return vec![vec![]];
    }
    all_lists(&idx, len).into_iter().map(|w| w.into_iter().map(|i| alpha[i as usize]).collect()).collect()
}

fn reference<T: Ingest>(seq: &[T::Item]) -> T {
    let mut e = T::fresh();
    for i in seq {
        e.add_item(*i);
    }
    e
}

impl<T: Ingest> Spec for IngestSpec<T> {
    type State = IState<T>;
    type Op = IOp<T::Item>;
    fn name(&self) -> String {
        format!("C20/ingest/{}/{}", T::NAME, self.alpha_name)
    }
    fn init(&self) -> Vec<IState<T>> {
        let mut v = vec![IState { e: guarded(|| T::fresh()), seq: vec![], how: "new()" }, IState { e: guarded(|| T::dflt()), seq: vec![], how: "default()" }];
        for l in 0..=self.max_len {
            for w in words(&self.alpha, l) {
                v.push(IState { e: guarded(|| T::collect_vals(&w)), seq: w.clone(), how: "collect(values)" });
                v.push(IState { e: guarded(|| T::collect_refs(&w)), seq: w.clone(), how: "collect(references)" });
                v.push(IState { e: guarded(|| T::collect_vals_opaque(&w)), seq: w.clone(), how: "collect(values, no size hint)" });
                v.push(IState { e: guarded(|| T::collect_refs_opaque(&w)), seq: w.clone(), how: "collect(references, no size hint)" });
            }
        }
        v
    }
    fn check_init(&self, s: &IState<T>) -> Vec<Violation> {
        self.judge(s, s.how)
    }
    fn ops(&self, s: &IState<T>) -> Vec<Self::Op> {
        if s.e.is_err() {
            return vec![];
        }
        let mut v = Vec::new();
        let room = self.max_len.saturating_sub(s.seq.len());
        // an empty extend is a legal piece too
        v.push(IOp::ExtendVals(vec![]));
        v.push(IOp::ExtendRefs(vec![]));
        for l in 1..=room.min(self.max_piece) {
            for w in words(&self.alpha, l) {
                v.push(IOp::AddLoop(w.clone()));
                v.push(IOp::ExtendVals(w.clone()));
                v.push(IOp::ExtendValsOpaque(w.clone()));
                v.push(IOp::ExtendRefsOpaque(w.clone()));
                v.push(IOp::ExtendRefs(w));
            }
        }
        v
    }
    fn step(&self, s: &IState<T>, op: &Self::Op) -> IState<T> {
        let mut e = s.e.clone().unwrap();
        let op2 = op.clone();
        let r = guarded(move || {
            match &op2 {
                IOp::AddLoop(w) => {
                    for i in w {
                        e.add_item(*i);
                    }
                }
                IOp::ExtendVals(w) => {
                    if !e.extend_vals(w) {
                        for i in w {
                            e.add_item(*i);
                        }
                    }
                }
                IOp::ExtendRefs(w) => {
                    if !e.extend_refs(w) {
                        for i in w {
                            e.add_item(*i);
                        }
                    }
                }
                IOp::ExtendValsOpaque(w) => {
                    if !e.extend_vals_opaque(w) {
                        for i in w {
                            e.add_item(*i);
                        }
                    }
                }
                IOp::ExtendRefsOpaque(w) => {
                    if !e.extend_refs_opaque(w) {
                        for i in w {
                            e.add_item(*i);
                        }
                    }
                }
            }
            e
        });
        let mut seq = s.seq.clone();
        let (w, how) = match op {
            IOp::AddLoop(w) => (w, "add-loop"),
            IOp::ExtendVals(w) => (w, "extend(values)"),
            IOp::ExtendRefs(w) => (w, "extend(references)"),
            IOp::ExtendValsOpaque(w) => (w, "extend(values, no size hint)"),
            IOp::ExtendRefsOpaque(w) => (w, "extend(references, no size hint)"),
        };
        seq.extend(w.iter().copied());
        IState { e: r, seq, how }
    }
    fn key(&self, s: &IState<T>) -> String {
        let sq: Vec<Vec<u64>> = s.seq.iter().map(|i| T::item_bits(i)).collect();
        match &s.e {
            Ok(e) => format!("{}|{:x?}", e.dbg(), sq),
            Err(m) => format!("panic:{m}|{:x?}", sq),
        }
    }
    fn check(&self, _s: &IState<T>, _op: &Self::Op, t: &IState<T>) -> Vec<Violation> {
        self.judge(t, t.how)
    }
    fn outcome(&self, s: &IState<T>) -> String {
        match &s.e {
            Ok(e) => e.observe_().fingerprint(),
            Err(_) => "panic".into(),
        }
    }
    fn show_op(&self, op: &Self::Op) -> Value {
        let w = |w: &Vec<T::Item>| Value::Array(w.iter().map(|i| T::item_json(i)).collect());
        match op {
            IOp::AddLoop(x) => json!({"add_loop": w(x)}),
            IOp::ExtendVals(x) => json!({"extend_values": w(x)}),
            IOp::ExtendRefs(x) => json!({"extend_references": w(x)}),
            IOp::ExtendValsOpaque(x) => json!({"extend_values_no_size_hint": w(x)}),
            IOp::ExtendRefsOpaque(x) => json!({"extend_references_no_size_hint": w(x)}),
        }
    }
    fn nontrivial(&self, s: &IState<T>) -> bool {
        !s.seq.is_empty()
    }
}
impl<T: Ingest> IngestSpec<T> {
    fn judge(&self, t: &IState<T>, how: &str) -> Vec<Violation> {
        let how = how.replace(['(', ')'], "-");
        match &t.e {
            Err(m) => vec![Violation { sig: format!("{}.{how}:panic", T::NAME), detail: format!("{m} on {:?}", t.seq) }],
            Ok(e) => {
                let mut out = Vec::new();
                let r = reference::<T>(&t.seq);
                let (oe, or) = (e.observe_(), r.observe_());
                if e.dbg() != r.dbg() || !oe.bits_eq(&or) {
                    out.push(Violation {
                        sig: format!("{}.{how}:differs-from-add-loop", T::NAME),
                        detail: format!("{} built through {how} on {:?} is {} but the plain add loop gives {} ({})", T::NAME, t.seq, e.dbg(), r.dbg(), or.first_diff(&oe)),
                    });
                }
                // Estimate::estimate() is bit-for-bit the headline statistic
                if let Some(est) = oe.get(Stat::Estimate) {
                    let head = match T::NAME {
                        "Mean" => Some(Stat::Mean),
                        "Variance" => Some(Stat::PopVar),
                        "Skewness" => Some(Stat::Skewness),
                        "Kurtosis" => Some(Stat::Kurtosis),
                        "Min" => Some(Stat::Min),
                        "Max" => Some(Stat::Max),
                        _ => None,
                    };
                    if let Some(h) = head.and_then(|h| oe.get(h)) {
                        if !est.bits_eq(h) {
                            out.push(Violation {
                                sig: format!("{}.estimate:differs-from-headline", T::NAME),
                                detail: format!("{}::estimate() = {} but the headline statistic is {} on {:?}", T::NAME, est.show(), h.show(), t.seq),
                            });
                        }
                    }
                }
                out
            }
        }
    }
}
impl<T: Ingest> ReplaySpec for IngestSpec<T> {
    fn parse_op(&self, v: &Value) -> Option<Self::Op> {
        let w = |v: &Value| -> Option<Vec<T::Item>> { v.as_array()?.iter().map(|i| T::item_parse(i)).collect() };
        if let Some(x) = v.get("add_loop") {
            return Some(IOp::AddLoop(w(x)?));
        }
        if let Some(x) = v.get("extend_values_no_size_hint") {
            return Some(IOp::ExtendValsOpaque(w(x)?));
        }
        if let Some(x) = v.get("extend_references_no_size_hint") {
            return Some(IOp::ExtendRefsOpaque(w(x)?));
        }
        if let Some(x) = v.get("extend_values") {
            return Some(IOp::ExtendVals(w(x)?));
        }
        if let Some(x) = v.get("extend_references") {
            return Some(IOp::ExtendRefs(w(x)?));
        }
        None
    }
}

// ---------------------------------------------------------------------------------------
// concatenate!

concatenate!(pub CatMinMax, [Min, min], [Max, max]);
concatenate!(pub CatVarQ, [Variance, variance, mean, sample_variance, population_variance, error], [Quantile, quantile, quantile]);
concatenate!(pub Cat3, [Mean, m, mean], [Skewness, s, skewness, population_variance], [Max, mx, max]);
concatenate!(pub Cat4, [Kurtosis, k, kurtosis, skewness, mean], [Min, mn, min], [Moments4, mo, sample_variance], [Quantile, q, quantile]);

fn beq(a: f64, b: f64) -> bool {
    (a.is_nan() && b.is_nan()) || a.to_bits() == b.to_bits()
}

/// accessor values of the struct and of the solo estimators for one sequence
fn cat_rows(which: &str, how: &str, xs: &[f64]) -> Vec<(&'static str, f64, f64)> {
    let solo = |f: &dyn Fn(&mut dyn FnMut(f64))| f(&mut |_| {});
    let _ = solo;
    macro_rules! build {
        ($t:ty) => {{
            match how {
                "new" => {
                    let mut c = <$t>::new();
                    for x in xs {
                        c.add(*x);
                    }
                    c
                }
                "default" => {
                    let mut c = <$t>::default();
                    for x in xs {
                        c.add(*x);
                    }
                    c
                }
                "collect-values" => xs.iter().copied().collect::<$t>(),
                _ => xs.iter().collect::<$t>(),
            }
        }};
    }
    let mut mn = Min::new();
    let mut mx = Max::new();
    let mut mean = Mean::new();
    let mut var = Variance::new();
    let mut sk = Skewness::new();
    let mut ku = Kurtosis::new();
    let mut mo = Moments4::new();
    let mut q = Quantile::default();
    for x in xs {
        mn.add(*x);
        mx.add(*x);
        mean.add(*x);
        var.add(*x);
        sk.add(*x);
        ku.add(*x);
        mo.add(*x);
        q.add(*x);
    }
    match which {
        "CatMinMax" => {
            let c = build!(CatMinMax);
            vec![("min", c.min(), mn.min()), ("max", c.max(), mx.max())]
        }
        "CatVarQ" => {
            let c = build!(CatVarQ);
            vec![
                ("mean", c.mean(), var.mean()),
                ("sample_variance", c.sample_variance(), var.sample_variance()),
                ("population_variance", c.population_variance(), var.population_variance()),
                ("error", c.error(), var.error()),
                ("quantile", c.quantile(), q.quantile()),
            ]
        }
        "Cat3" => {
            let c = build!(Cat3);
            vec![("mean", c.mean(), mean.mean()), ("skewness", c.skewness(), sk.skewness()), ("population_variance", c.population_variance(), sk.population_variance()), ("max", c.max(), mx.max())]
        }
        _ => {
            let c = build!(Cat4);
            vec![
                ("kurtosis", c.kurtosis(), ku.kurtosis()),
                ("skewness", c.skewness(), ku.skewness()),
                ("mean", c.mean(), ku.mean()),
                ("min", c.min(), mn.min()),
                ("sample_variance", c.sample_variance(), mo.sample_variance()),
                ("quantile", c.quantile(), q.quantile()),
            ]
        }
    }
}

fn cat_judge(which: &str, how: &str, xs: &[f64]) -> Vec<Violation> {
    let (w, h) = (which.to_string(), how.to_string());
    let xv = xs.to_vec();
    match guarded(move || cat_rows(&w, &h, &xv)) {
        Err(m) => vec![Violation { sig: format!("concatenate.{which}:{how}:panic"), detail: format!("{m} on {xs:?}") }],
        Ok(rows) => rows
            .into_iter()
            .filter(|(_, a, b)| !beq(*a, *b))
            .map(|(name, a, b)| Violation {
                sig: format!("concatenate.{which}.{name}:{how}:differs-from-solo"),
                detail: format!("{which}::{name}() = {a:?} built by {how} on {xs:?}; the underlying estimator alone reports {b:?}"),
            })
            .collect(),
    }
}

pub struct CatCheck {
    which: &'static str,
    alpha: &'static str,
    max_len: usize,
}
impl Check for CatCheck {
    fn name(&self) -> String {
        format!("C20/concatenate/{}/{}", self.which, self.alpha)
    }
    fn run(&self) -> Stats {
        let t0 = std::time::Instant::now();
        let alpha = sub_alphabet(self.alpha, 3);
        let mut st = Stats { spec: self.name(), depth_requested: self.max_len, depth_completed: self.max_len, ..Default::default() };
        let mut found: std::collections::BTreeMap<String, Found> = Default::default();
        for l in 0..=self.max_len {
            let ws = words(&alpha, l);
            let res: Vec<Vec<(Violation, &str)>> = ws
                .par_iter()
                .map(|w| {
                    let mut out = Vec::new();
                    for how in ["new", "default", "collect-values", "collect-references"] {
                        for v in cat_judge(self.which, how, w) {
                            out.push((v, how));
                        }
                    }
                    out
                })
                .collect();
            st.states += ws.len() as u64;
            st.transitions += 4 * ws.len() as u64;
            st.frontier_sizes.push(ws.len() as u64);
            if l == self.max_len {
                st.maximal = 4 * ws.len() as u64;
                st.samples.push(json!({"spec": self.name(), "history": [{"how": "collect-references"}, {"sequence": ws[ws.len() / 2].iter().map(|x| fshow(*x)).collect::<Vec<_>>()}]}));
            }
            for (w, r) in ws.iter().zip(res) {
                for (v, how) in r {
                    let e = found.entry(v.sig.clone()).or_insert(Found { sig: v.sig, detail: v.detail, path: vec![json!({"how": how}), json!({"sequence": w.iter().map(|x| fshow(*x)).collect::<Vec<_>>()})], count: 0 });
                    e.count += 1;
                }
            }
        }
        st.nontrivial_states = st.states - 1;
        st.outcomes = st.states;
        st.found = found.into_values().collect();
        st.wall_s = t0.elapsed().as_secs_f64();
        st
    }
    fn replay(&self, path: &[Value]) -> Result<Vec<Violation>, String> {
        let how = path.first().and_then(|v| v.get("how")).and_then(|h| h.as_str()).ok_or("no how")?;
        let xs: Vec<f64> = path.get(1).and_then(|v| v.get("sequence")).and_then(|s| s.as_array()).ok_or("no sequence")?.iter().map(fparse).collect::<Option<Vec<_>>>().ok_or("bad sequence")?;
        Ok(cat_judge(self.which, how, &xs))
    }
}

/// Long pieces: a short prefix fed by add, then ONE long piece (255..4096 items) through
/// extend(values) / extend(references), and whole long sequences through collect — compared
/// bit-for-bit with the plain add loop (an implementation may treat long iterators differently,
/// e.g. through size_hint).
pub struct LongPieces<T: Ingest> {
    pub alpha_name: String,
    pub alpha: Vec<T::Item>,
}
impl<T: Ingest> LongPieces<T> {
    fn cases(&self) -> Vec<(Vec<T::Item>, usize, usize)> {
        let mut v = Vec::new();
        for l in 1..=2 {
            for w in words(&self.alpha, l) {
                for prefix in [0usize, 1, 3] {
                    for len in [255usize, 256, 257, 1000, 4096] {
                        v.push((w.clone(), prefix, len));
                    }
                }
            }
        }
        v
    }
    fn judge(&self, w: &[T::Item], prefix: usize, len: usize) -> Vec<Violation> {
        let seq: Vec<T::Item> = (0..prefix + len).map(|i| w[i % w.len()]).collect();
        let refr = reference::<T>(&seq);
        let mut out = Vec::new();
        let mut cmp = |how: &str, e: Result<T, String>| match e {
            Err(m) => out.push(Violation { sig: format!("{}.{how}:panic:long-piece", T::NAME), detail: m }),
            Ok(e) => {
                if e.dbg() != refr.dbg() || !e.observe_().bits_eq(&refr.observe_()) {
                    out.push(Violation {
                        sig: format!("{}.{how}:differs-from-add-loop:long-piece", T::NAME),
                        detail: format!("{}: {prefix} adds then {how} of {len} items (word {:?} repeated) gives {} but the add loop gives {}", T::NAME, w, e.dbg(), refr.dbg()),
                    });
                }
            }
        };
        let (pre, piece) = seq.split_at(prefix);
        let base = reference::<T>(pre);
        let b = base.clone();
        cmp("extend-values", guarded(move || { let mut b = b; if !b.extend_vals(piece) { for i in piece { b.add_item(*i); } } b }));
        let b = base.clone();
        cmp("extend-references", guarded(move || { let mut b = b; if !b.extend_refs(piece) { for i in piece { b.add_item(*i); } } b }));
        if prefix == 0 {
            cmp("collect-values", guarded(|| T::collect_vals(&seq)));
            cmp("collect-references", guarded(|| T::collect_refs(&seq)));
        }
        out
    }
}
impl<T: Ingest> Check for LongPieces<T> {
    fn name(&self) -> String {
        format!("C20/long-pieces/{}/{}", T::NAME, self.alpha_name)
    }
    fn run(&self) -> Stats {
        let t0 = std::time::Instant::now();
        let cases = self.cases();
        let mut st = Stats { spec: self.name(), depth_requested: 4096, depth_completed: 4096, ..Default::default() };
        let res: Vec<Vec<Violation>> = cases.par_iter().map(|(w, p, l)| self.judge(w, *p, *l)).collect();
        let mut found: std::collections::BTreeMap<String, Found> = Default::default();
        for ((w, p, l), vs) in cases.iter().zip(res) {
            st.states += 1;
            st.transitions += 4 * (*p + *l) as u64;
            for v in vs {
                let e = found.entry(v.sig.clone()).or_insert(Found { sig: v.sig, detail: v.detail, path: vec![json!({"word": w.iter().map(|i| T::item_json(i)).collect::<Vec<_>>()}), json!({"prefix": p, "piece": l})], count: 0 });
                e.count += 1;
            }
        }
        st.maximal = st.states;
        st.nontrivial_states = st.states;
        st.outcomes = st.states;
        let (w, p, l) = &cases[cases.len() / 2];
        st.samples.push(json!({"spec": self.name(), "history": [{"word": w.iter().map(|i| T::item_json(i)).collect::<Vec<_>>()}, {"adds": p}, {"then_one_piece_of": l}]}));
        st.found = found.into_values().collect();
        st.wall_s = t0.elapsed().as_secs_f64();
        st
    }
    fn replay(&self, path: &[Value]) -> Result<Vec<Violation>, String> {
        let w: Vec<T::Item> = path.first().and_then(|v| v.get("word")).and_then(|w| w.as_array()).ok_or("no word")?.iter().map(|i| T::item_parse(i)).collect::<Option<Vec<_>>>().ok_or("bad word")?;
        let p = path.get(1).and_then(|v| v.get("prefix")).and_then(|p| p.as_u64()).ok_or("no prefix")? as usize;
        let l = path.get(1).and_then(|v| v.get("piece")).and_then(|p| p.as_u64()).ok_or("no piece")? as usize;
        Ok(self.judge(&w, p, l))
    }
}
fn longp<T: Ingest>(name: &str, alpha: Vec<T::Item>) -> Box<dyn Check> {
    Box::new(LongPieces::<T> { alpha_name: name.into(), alpha })
}

/// "However the estimator was built": every word, every split into a prefix (built by add loop
/// or collect) and a rest fed through extend by value / by reference, judged by the *value*
/// oracle of the owning property (C08, C09) rather than by comparison with the add loop.
pub struct ExtendSplit<T: Ingest> {
    pub prop: &'static str,
    pub alpha_name: String,
    pub alpha: Vec<T::Item>,
    pub max_len: usize,
    pub judge: super::interval::Judge<T>,
}
impl<T: Ingest> ExtendSplit<T> {
    fn build(w: &[T::Item], k: usize, prefix_collect: bool, by_ref: bool) -> Result<T, String> {
        let w = w.to_vec();
        guarded(move || {
            let mut e = if prefix_collect { T::collect_refs(&w[..k]) } else { reference::<T>(&w[..k]) };
            let done = if by_ref { e.extend_refs(&w[k..]) } else { e.extend_vals(&w[k..]) };
            if !done {
                for i in &w[k..] {
                    e.add_item(*i);
                }
            }
            e
        })
    }
}
impl<T: Ingest> Check for ExtendSplit<T> {
    fn name(&self) -> String {
        format!("{}/built-by-extend/{}/{}", self.prop, T::NAME, self.alpha_name)
    }
    fn run(&self) -> Stats {
        let t0 = std::time::Instant::now();
        let mut st = Stats { spec: self.name(), depth_requested: self.max_len, depth_completed: self.max_len, ..Default::default() };
        let mut found: std::collections::BTreeMap<String, Found> = Default::default();
        for l in 1..=self.max_len {
            let ws = words(&self.alpha, l);
            let res: Vec<Vec<(Violation, Value)>> = ws
                .par_iter()
                .map(|w| {
                    let mut out = Vec::new();
                    let mut sigs: std::collections::HashSet<String> = std::collections::HashSet::new();
                    for k in 0..=w.len() {
                        for pc in [false, true] {
                            for br in [false, true] {
                                let path = json!([{"word": w.iter().map(|i| T::item_json(i)).collect::<Vec<_>>()}, {"split": k, "prefix_by_collect": pc, "extend_by_ref": br}]);
                                match Self::build(w, k, pc, br) {
                                    Err(m) => out.push((Violation { sig: format!("{}.extend:panic", T::NAME), detail: m }, path)),
                                    Ok(e) => {
                                        for mut v in (self.judge)(w, &e.observe_()) {
                                            v.sig = format!("{}:built-by-extend", v.sig);
                                            if sigs.insert(v.sig.clone()) {
                                                out.push((v, path.clone()));
                                            }
                                        }
                                    }
                                }
                            }
                        }
                    }
                    out
                })
                .collect();
            st.states += ws.len() as u64;
            st.transitions += ws.len() as u64 * (l as u64 + 1) * 4;
            st.frontier_sizes.push(ws.len() as u64);
            if l == self.max_len {
                st.maximal = ws.len() as u64 * (l as u64 + 1) * 4;
                st.samples.push(json!({"spec": self.name(), "history": [{"word": ws[ws.len() / 2].iter().map(|i| T::item_json(i)).collect::<Vec<_>>()}, {"split": l / 2, "prefix_by_collect": true, "extend_by_ref": true}]}));
            }
            for r in res {
                for (v, p) in r {
                    let e = found.entry(v.sig.clone()).or_insert(Found { sig: v.sig, detail: v.detail, path: p.as_array().unwrap().clone(), count: 0 });
                    e.count += 1;
                }
            }
        }
        st.nontrivial_states = st.states;
        st.outcomes = st.states;
        st.found = found.into_values().collect();
        st.wall_s = t0.elapsed().as_secs_f64();
        st
    }
    fn replay(&self, path: &[Value]) -> Result<Vec<Violation>, String> {
        let w: Vec<T::Item> = path.first().and_then(|v| v.get("word")).and_then(|w| w.as_array()).ok_or("no word")?.iter().map(|i| T::item_parse(i)).collect::<Option<Vec<_>>>().ok_or("bad word")?;
        let o = path.get(1).ok_or("no split")?;
        let k = o.get("split").and_then(|k| k.as_u64()).ok_or("no split")? as usize;
        let pc = o.get("prefix_by_collect").and_then(|b| b.as_bool()).unwrap_or(false);
        let br = o.get("extend_by_ref").and_then(|b| b.as_bool()).unwrap_or(false);
        match Self::build(&w, k, pc, br) {
            Err(m) => Ok(vec![Violation { sig: format!("{}.extend:panic", T::NAME), detail: m }]),
            Ok(e) => Ok((self.judge)(&w, &e.observe_())),
        }
    }
}

fn ing<T: Ingest>(name: &str, alpha: Vec<T::Item>, max_len: usize) -> Box<dyn Check> {
    Box::new(Bfs::new(IngestSpec::<T> { alpha_name: name.into(), alpha, max_len, max_piece: 3 }, max_len + 2))
}

pub fn plan(tier: Tier) -> Plan {
    let q = tier == Tier::Quick;
    let l = if q { 5 } else { 7 };
    let mut checks: Vec<Box<dyn Check>> = Vec::new();
    for a in ["tri", "off9", "dec"] {
        let al = sub_alphabet(a, 3);
        checks.push(ing::<U<Mean>>(a, al.clone(), l));
        checks.push(ing::<U<Variance>>(a, al.clone(), l));
        checks.push(ing::<U<Skewness>>(a, al.clone(), l));
        checks.push(ing::<U<Kurtosis>>(a, al.clone(), l));
        checks.push(ing::<U<Moments4>>(a, al.clone(), l));
        checks.push(ing::<U<M6>>(a, al.clone(), l));
        checks.push(ing::<U<Min>>(a, al.clone(), l));
        checks.push(ing::<U<Max>>(a, al.clone(), l));
    }
    for a in ["tri", "off9"] {
        let al = sub_alphabet(a, 3);
        checks.push(longp::<U<Mean>>(a, al.clone()));
        checks.push(longp::<U<Variance>>(a, al.clone()));
        checks.push(longp::<U<Skewness>>(a, al.clone()));
        checks.push(longp::<U<Kurtosis>>(a, al.clone()));
        checks.push(longp::<U<Moments4>>(a, al.clone()));
        checks.push(longp::<U<Min>>(a, al.clone()));
        checks.push(longp::<U<Max>>(a, al.clone()));
    }
    checks.push(longp::<WeightedMean>("w3", vec![(-1., 0.), (0.1, 0.5), (3., 1e6)]));
    checks.push(longp::<WeightedMeanWithError>("w3", vec![(-1., 0.), (0.1, 0.5), (3., 1e6)]));
    checks.push(longp::<Covariance>("corr3", vec![(1., 5.), (2., 4.1), (-3., 0.1)]));
    let wp = vec![(-1., 0.), (0.1, 0.5), (3., 1e6)];
    checks.push(ing::<WeightedMean>("w3", wp.clone(), l));
    checks.push(ing::<WeightedMeanWithError>("w3", wp, l));
    checks.push(ing::<Covariance>("corr3", vec![(1., 5.), (2., 4.1), (-3., 0.1)], l));
    checks.push(ing::<Covariance>("off3", vec![(1e9 - 3., -1e6 + 0.5), (1e9 + 4., -1e6 - 2.), (1e9 + 13., -1e6)], l));
    checks.push(cross(IngestSpec::<U<Variance>> { alpha_name: "tri".into(), alpha: sub_alphabet("tri", 3), max_len: 4, max_piece: 3 }, 6));
    for p in [0., 0.3, 0.5, 1.] {
        checks.push(super::quantile::qcheck(super::quantile::Mode::C20, p, "qties", if q { 7 } else { 9 }, 0.0));
    }
    for which in ["CatMinMax", "CatVarQ", "Cat3", "Cat4"] {
        for a in ["tri", "qties", "off9"] {
            checks.push(Box::new(CatCheck { which, alpha: a, max_len: if q { 7 } else { 9 } }));
        }
    }
    Plan {
        rule: "long pieces: a prefix of 0/1/3 adds followed by ONE piece of 255, 256, 257, 1000 or 4096 items through extend(values)/extend(references), and whole sequences of those lengths through collect, compared bit-for-bit with the add loop; AND for every type with FromIterator/Extend (Mean, Variance, Skewness, Kurtosis, Moments4, M6, Min, Max (collect only: no Extend impl exists), WeightedMean, WeightedMeanWithError, Covariance): every sequence up to the length bound over 3-value alphabets built by every initial piece new()/default()/collect(values)/collect(references) followed by every composition into pieces of length <= 3 (and empty extends) fed by add loop / extend(values) / extend(references); the Debug string and every accessor must be bit-identical to the plain add loop and estimate() bit-equal to the headline accessor; four concatenate! structs (2, 2, 3, 4 fields, short and long syntax, with Quantile) compared accessor by accessor with the solo estimators for new(), default(), collect by value and by reference".into(),
        assumptions: common_assumptions(),
        checks,
    }
}
