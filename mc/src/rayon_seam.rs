//! The seam through which a rayon schedule reaches `average`: `from_par_iter` is
//! `par_iter.fold(new, add).reduce(new, merge)`, and the schedule (thread count, splitting
//! granularity, steal order) reaches that code only as the tree in which the consumer is
//! split and the order in which leaves run.  `Scripted*` are `ParallelIterator`s whose
//! `drive_unindexed` walks a *given* split tree with the public plumbing calls, sequentially
//! and deterministically.  `Logged` is an indexed parallel iterator over a Vec whose producer
//! records every `split_at`, to bind real rayon runs back to scripted trees.

use rayon::iter::plumbing::{bridge, Consumer, Folder, Producer, ProducerCallback, Reducer, UnindexedConsumer};
use rayon::iter::{IndexedParallelIterator, ParallelIterator};
use std::sync::{Arc, Mutex};

#[derive(Clone, Debug, PartialEq, Eq, Hash)]
pub enum Tree {
    Leaf(usize, usize),
    /// (left, right, run the right subtree first)
    Node(Box<Tree>, Box<Tree>, bool),
}

impl Tree {
    pub fn leaves(&self) -> usize {
        match self {
            Tree::Leaf(..) => 1,
            Tree::Node(l, r, _) => l.leaves() + r.leaves(),
        }
    }
    pub fn json(&self) -> serde_json::Value {
        match self {
            Tree::Leaf(i, j) => serde_json::json!([i, j]),
            Tree::Node(l, r, o) => serde_json::json!({"split": [l.json(), r.json()], "right_first": o}),
        }
    }
    pub fn parse(v: &serde_json::Value) -> Option<Tree> {
        if let Some(a) = v.as_array() {
            return Some(Tree::Leaf(a.first()?.as_u64()? as usize, a.get(1)?.as_u64()? as usize));
        }
        let s = v.get("split")?.as_array()?;
        Some(Tree::Node(Box::new(Tree::parse(&s[0])?), Box::new(Tree::parse(&s[1])?), v.get("right_first")?.as_bool()?))
    }
    /// canonical form ignoring execution order
    pub fn shape(&self) -> Tree {
        match self {
            Tree::Leaf(i, j) => Tree::Leaf(*i, *j),
            Tree::Node(l, r, _) => Tree::Node(Box::new(l.shape()), Box::new(r.shape()), false),
        }
    }
}

/// All binary split trees over the range [i, j) with at most `empties` empty leaves.
/// `orders`: also enumerate both execution orders at every node.
pub fn all_trees(i: usize, j: usize, empties: usize, orders: bool) -> Vec<Tree> {
    let mut out = vec![Tree::Leaf(i, j)];
    for m in i..=j {
        let left_empty = m == i;
        let right_empty = m == j;
        let need = left_empty as usize + right_empty as usize;
        if need > empties {
            continue;
        }
        if left_empty && right_empty {
            // both sides empty (i == j): allow one level only
            let t = Tree::Node(Box::new(Tree::Leaf(i, i)), Box::new(Tree::Leaf(i, i)), false);
            out.push(t);
            continue;
        }
        // distribute the remaining budget of empty leaves
        let budget = empties - need;
        for bl in 0..=budget {
            let ls = if left_empty { vec![Tree::Leaf(i, i)] } else { all_trees(i, m, bl, orders) };
            let rs = if right_empty { vec![Tree::Leaf(j, j)] } else { all_trees(m, j, budget - bl, orders) };
            for l in &ls {
                for r in &rs {
                    out.push(Tree::Node(Box::new(l.clone()), Box::new(r.clone()), false));
                    if orders {
                        out.push(Tree::Node(Box::new(l.clone()), Box::new(r.clone()), true));
                    }
                }
            }
        }
    }
    // distributing the budget in several ways can generate a tree twice
    let mut seen = std::collections::HashSet::new();
    out.retain(|t| seen.insert(t.clone()));
    out
}

fn drive_vals<C: UnindexedConsumer<f64>>(tree: &Tree, items: &[f64], consumer: C) -> C::Result {
    match tree {
        Tree::Leaf(i, j) => {
            let mut folder = consumer.into_folder();
            for x in &items[*i..*j] {
                if folder.full() {
                    break;
                }
                folder = folder.consume(*x);
            }
            folder.complete()
        }
        Tree::Node(l, r, right_first) => {
            let left_c = consumer.split_off_left();
            let reducer = consumer.to_reducer();
            if *right_first {
                let rr = drive_vals(r, items, consumer);
                let lr = drive_vals(l, items, left_c);
                reducer.reduce(lr, rr)
            } else {
                let lr = drive_vals(l, items, left_c);
                let rr = drive_vals(r, items, consumer);
                reducer.reduce(lr, rr)
            }
        }
    }
}

fn drive_refs<'a, C: UnindexedConsumer<&'a f64>>(tree: &Tree, items: &'a [f64], consumer: C) -> C::Result {
    match tree {
        Tree::Leaf(i, j) => {
            let mut folder = consumer.into_folder();
            for x in &items[*i..*j] {
                if folder.full() {
                    break;
                }
                folder = folder.consume(x);
            }
            folder.complete()
        }
        Tree::Node(l, r, right_first) => {
            let left_c = consumer.split_off_left();
            let reducer = consumer.to_reducer();
            if *right_first {
                let rr = drive_refs(r, items, consumer);
                let lr = drive_refs(l, items, left_c);
                reducer.reduce(lr, rr)
            } else {
                let lr = drive_refs(l, items, left_c);
                let rr = drive_refs(r, items, consumer);
                reducer.reduce(lr, rr)
            }
        }
    }
}

pub struct ScriptedVals<'a> {
    pub items: &'a [f64],
    pub tree: &'a Tree,
}
impl<'a> ParallelIterator for ScriptedVals<'a> {
    type Item = f64;
    fn drive_unindexed<C: UnindexedConsumer<f64>>(self, consumer: C) -> C::Result {
        drive_vals(self.tree, self.items, consumer)
    }
}
pub struct ScriptedRefs<'a> {
    pub items: &'a [f64],
    pub tree: &'a Tree,
}
impl<'a> ParallelIterator for ScriptedRefs<'a> {
    type Item = &'a f64;
    fn drive_unindexed<C: UnindexedConsumer<&'a f64>>(self, consumer: C) -> C::Result {
        drive_refs(self.tree, self.items, consumer)
    }
}

// ---------------------------------------------------------------------------------------
// logging producer for real rayon runs

pub type SplitLog = Arc<Mutex<Vec<(usize, usize, usize)>>>; // (lo, hi, mid)

pub struct Logged<'a> {
    pub items: &'a [f64],
    pub log: SplitLog,
}
struct LoggedProducer<'a> {
    items: &'a [f64],
    lo: usize,
    log: SplitLog,
}
impl<'a> Producer for LoggedProducer<'a> {
    type Item = f64;
    type IntoIter = std::iter::Copied<std::slice::Iter<'a, f64>>;
    fn into_iter(self) -> Self::IntoIter {
        self.items.iter().copied()
    }
    fn split_at(self, index: usize) -> (Self, Self) {
        self.log.lock().unwrap().push((self.lo, self.lo + self.items.len(), self.lo + index));
        let (l, r) = self.items.split_at(index);
        (LoggedProducer { items: l, lo: self.lo, log: self.log.clone() }, LoggedProducer { items: r, lo: self.lo + index, log: self.log })
    }
}
impl<'a> ParallelIterator for Logged<'a> {
    type Item = f64;
    fn drive_unindexed<C: UnindexedConsumer<f64>>(self, consumer: C) -> C::Result {
        bridge(self, consumer)
    }
    fn opt_len(&self) -> Option<usize> {
        Some(self.items.len())
    }
}
impl<'a> IndexedParallelIterator for Logged<'a> {
    fn len(&self) -> usize {
        self.items.len()
    }
    fn drive<C: Consumer<f64>>(self, consumer: C) -> C::Result {
        bridge(self, consumer)
    }
    fn with_producer<CB: ProducerCallback<f64>>(self, callback: CB) -> CB::Output {
        callback.callback(LoggedProducer { items: self.items, lo: 0, log: self.log })
    }
}

/// Rebuild the split tree of the range [lo, hi) from a set of recorded splits.
pub fn tree_from_log(log: &[(usize, usize, usize)], lo: usize, hi: usize) -> Tree {
    for &(a, b, m) in log {
        if a == lo && b == hi {
            // with an empty side the same (lo, hi) could recur: rayon never splits at the ends
            if m > lo && m < hi {
                return Tree::Node(Box::new(tree_from_log(log, lo, m)), Box::new(tree_from_log(log, m, hi)), false);
            }
        }
    }
    Tree::Leaf(lo, hi)
}
