//! Explicit-state explorer: level-synchronous breadth-first search over the histories of a
//! `Spec`, executing the real implementation on every transition.
//!
//! * every transition is checked (`Spec::check`), also those that lead to an already known
//!   state, so path-dependent oracles see every path endpoint;
//! * states are deduplicated on `Spec::key` (full key strings, no lossy hashing);
//! * the first (= a shortest) path to every state is kept through parent links, so every
//!   violation carries a minimal operation list;
//! * worker threads only partition the frontier; successors are merged in frontier × op
//!   order, so counts and reported paths are identical from run to run.

use rayon::prelude::*;
use std::collections::{HashMap, HashSet};
use std::hash::{Hash, Hasher};
use std::time::Instant;

#[derive(Clone, Debug)]
pub struct Violation {
    /// stable name of the failing call site / input class (known-findings key)
    pub sig: String,
    /// human readable: observed vs expected
    pub detail: String,
}

pub trait Spec: Sync {
    type State: Clone + Send + Sync;
    type Op: Clone + Send + Sync;
    fn name(&self) -> String;
    fn init(&self) -> Vec<Self::State>;
    /// operations enabled in `s`; an empty list makes `s` a maximal history
    fn ops(&self, s: &Self::State) -> Vec<Self::Op>;
    /// execute `op` on the real implementation
    fn step(&self, s: &Self::State, op: &Self::Op) -> Self::State;
    fn key(&self, s: &Self::State) -> String;
    /// oracle for the transition s --op--> t (and for t as a state)
    fn check(&self, s: &Self::State, op: &Self::Op, t: &Self::State) -> Vec<Violation>;
    /// oracle for initial states
    fn check_init(&self, _s: &Self::State) -> Vec<Violation> {
        Vec::new()
    }
    /// observation vector of a state (for the distinct-outcomes count)
    fn outcome(&self, s: &Self::State) -> String;
    fn show_op(&self, op: &Self::Op) -> serde_json::Value;
    /// non-trivial = the state is inside the judged domain of the property
    fn nontrivial(&self, _s: &Self::State) -> bool {
        true
    }
}

#[derive(Clone, Debug, Default)]
pub struct Found {
    pub sig: String,
    pub detail: String,
    pub path: Vec<serde_json::Value>,
    pub count: u64,
}

#[derive(Clone, Debug, Default)]
pub struct Stats {
    pub spec: String,
    pub states: u64,
    pub transitions: u64,
    pub maximal: u64,
    pub outcomes: u64,
    pub nontrivial_states: u64,
    pub depth_completed: usize,
    pub depth_requested: usize,
    pub frontier_sizes: Vec<u64>,
    pub capped: Option<String>,
    pub closed: bool, // fixpoint reached (no new states) before the depth bound
    pub wall_s: f64,
    pub found: Vec<Found>,
    pub samples: Vec<serde_json::Value>,
    /// a fault of the machinery itself (never a verdict)
    pub engine_error: Option<String>,
    /// unique-state count of the independent stateright enumeration, where it was run
    pub stateright_states: Option<u64>,
}

pub struct Limits {
    pub max_depth: usize,
    pub max_states: u64,
    pub max_wall_s: f64,
}

fn h64<T: Hash>(t: &T) -> u64 {
    let mut h = std::collections::hash_map::DefaultHasher::new();
    t.hash(&mut h);
    h.finish()
}

struct Succ<S, O> {
    parent: u32,
    op: O,
    state: S,
    key: String,
    outcome: u64,
    nontrivial: bool,
    viol: Vec<Violation>,
}

pub fn explore<Sp: Spec>(spec: &Sp, lim: &Limits) -> Stats {
    let t0 = Instant::now();
    let mut st = Stats { spec: spec.name(), depth_requested: lim.max_depth, ..Default::default() };
    let mut seen: HashSet<String> = HashSet::new();
    let mut outcomes: HashSet<u64> = HashSet::new();
    // parent links per level: (index in previous level, op)
    let mut links: Vec<Vec<(u32, Option<Sp::Op>)>> = Vec::new();
    let mut found: HashMap<String, Found> = HashMap::new();
    let mut frontier: Vec<Sp::State> = Vec::new();

    let mut lvl0 = Vec::new();
    for s in spec.init() {
        let k = spec.key(&s);
        if seen.insert(k) {
            for v in spec.check_init(&s) {
                let f = found.entry(v.sig.clone()).or_insert_with(|| Found {
                    sig: v.sig.clone(),
                    detail: v.detail.clone(),
                    path: vec![],
                    count: 0,
                });
                f.count += 1;
            }
            outcomes.insert(h64(&spec.outcome(&s)));
            if spec.nontrivial(&s) {
                st.nontrivial_states += 1;
            }
            lvl0.push((0u32, None));
            frontier.push(s);
        }
    }
    links.push(lvl0);
    st.states = frontier.len() as u64;
    st.frontier_sizes.push(frontier.len() as u64);

    let path_of = |links: &Vec<Vec<(u32, Option<Sp::Op>)>>, level: usize, idx: u32| -> Vec<serde_json::Value> {
        let mut out = Vec::new();
        let mut l = level;
        let mut i = idx;
        while l > 0 {
            let (p, op) = &links[l][i as usize];
            out.push(spec.show_op(op.as_ref().unwrap()));
            i = *p;
            l -= 1;
        }
        out.push(serde_json::json!({"init": i}));
        out.reverse();
        out
    };

    let mut depth = 0usize;
    while depth < lim.max_depth && !frontier.is_empty() {
        if t0.elapsed().as_secs_f64() > lim.max_wall_s {
            st.capped = Some(format!("wall cap {}s hit before depth {}", lim.max_wall_s, depth + 1));
            break;
        }
        // expand in parallel, in chunks to bound memory
        let succs: Vec<Vec<Succ<Sp::State, Sp::Op>>> = frontier
            .par_iter()
            .enumerate()
            .map(|(i, s)| {
                let ops = spec.ops(s);
                let mut out = Vec::with_capacity(ops.len());
                for op in ops {
                    let t = spec.step(s, &op);
                    let viol = spec.check(s, &op, &t);
                    let key = spec.key(&t);
                    let outcome = h64(&spec.outcome(&t));
                    let nontrivial = spec.nontrivial(&t);
                    out.push(Succ { parent: i as u32, op, state: t, key, outcome, nontrivial, viol });
                }
                out
            })
            .collect();
        let mut next: Vec<Sp::State> = Vec::new();
        let mut nlinks: Vec<(u32, Option<Sp::Op>)> = Vec::new();
        for per_state in succs {
            if per_state.is_empty() {
                st.maximal += 1;
            }
            for s in per_state {
                st.transitions += 1;
                for v in s.viol {
                    let f = found.entry(v.sig.clone()).or_insert_with(|| {
                        let mut p = path_of(&links, depth, s.parent);
                        p.push(spec.show_op(&s.op));
                        Found { sig: v.sig.clone(), detail: v.detail.clone(), path: p, count: 0 }
                    });
                    f.count += 1;
                }
                outcomes.insert(s.outcome);
                if seen.insert(s.key) {
                    if s.nontrivial {
                        st.nontrivial_states += 1;
                    }
                    nlinks.push((s.parent, Some(s.op)));
                    next.push(s.state);
                }
            }
        }
        depth += 1;
        st.states += next.len() as u64;
        st.frontier_sizes.push(next.len() as u64);
        links.push(nlinks);
        frontier = next;
        st.depth_completed = depth;
        // fail fast: BFS has already produced the shortest counterexample of every signature seen;
        // deeper levels of a broken implementation only cost time and memory (violations that are
        // listed as known findings do not stop the search)
        if found.keys().any(|s| crate::report::is_new_signature(s)) {
            st.capped = Some(format!("stopped after depth {depth}: violations found (shortest counterexamples kept)"));
            break;
        }
        if st.states > lim.max_states {
            st.capped = Some(format!("state cap {} hit after depth {}", lim.max_states, depth));
            break;
        }
    }
    if frontier.is_empty() {
        st.closed = true;
        // fixpoint: the whole (finite) space was explored; every explored transition is a
        // validated step of the implementation and there is no "deepest" history
        if st.maximal == 0 {
            st.maximal = st.transitions;
        }
    } else if st.capped.is_none() {
        // states at the depth bound are maximal histories of the bounded space
        st.maximal += frontier.len() as u64;
    }
    // a few sample histories: first, middle and last state of the deepest level
    // a few sample histories: from the deepest non-empty level (middle and last state first:
    // the first state of a level is usually the least interesting, all-smallest-letter one)
    let inits = spec.init();
    if links.len() <= 2 && links.get(1).map(|l| l.is_empty()).unwrap_or(true) && !inits.is_empty() {
        // the space closed on its initial states: show transitions out of some of them
        for &i in &[inits.len() / 2, inits.len() - 1, 0] {
            let ops = spec.ops(&inits[i]);
            if !ops.is_empty() {
                st.samples.push(serde_json::json!({"spec": spec.name(), "history": [{"init": i, "state": spec.key(&inits[i])}, spec.show_op(&ops[ops.len() / 2])], "note": "leads to an already known state"}));
            }
        }
    } else if let Some(l) = (0..links.len()).rev().find(|&l| !links[l].is_empty()) {
        let last = &links[l];
        for &i in &[last.len() / 2, last.len() - 1, last.len() / 3] {
            st.samples.push(serde_json::json!({"spec": spec.name(), "history": path_of(&links, l, i as u32)}));
        }
    }
    st.outcomes = outcomes.len() as u64;
    let mut fv: Vec<Found> = found.into_values().collect();
    fv.sort_by(|a, b| a.sig.cmp(&b.sig));
    st.found = fv;
    st.wall_s = t0.elapsed().as_secs_f64();
    st
}
