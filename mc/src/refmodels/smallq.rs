//! Exact sample p-quantile of 1..4 observations (C07): the smallest observation whose
//! cumulative relative frequency reaches p, averaged with the next larger one when n·p is a
//! whole number.  n·p is evaluated exactly (integer arithmetic on p's mantissa).

use crate::exact::decompose;

#[derive(Clone, Debug)]
pub struct SmallQ {
    /// acceptable answers (one, or two when n·p is within rounding of a whole number)
    pub accept: Vec<f64>,
    /// per acceptable answer: the two order statistics it was formed from (equal when the
    /// answer is an order statistic itself).  The average of a <= b lies in [a, b], and so
    /// does every rounding of it since a and b are representable.
    pub bracket: Vec<(f64, f64)>,
    pub note: &'static str,
}

/// the average of two finite numbers to within one rounding (two in the subnormal range):
/// (a+b)/2 unless the sum overflows, a/2 + b/2 then
fn average(a: f64, b: f64) -> f64 {
    let s = a + b;
    if s.is_finite() {
        s / 2.
    } else {
        a / 2. + b / 2.
    }
}
fn value_for_whole(h: &[f64], k: i128) -> (f64, (f64, f64)) {
    // n·p == k (whole): index j = k-1; averaged with the next larger one if there is one
    let n = h.len() as i128;
    if k <= 0 {
        return (h[0], (h[0], h[0]));
    }
    let j = (k - 1).min(n - 1) as usize;
    if (j as i128) < n - 1 {
        (average(h[j], h[j + 1]), (h[j], h[j + 1]))
    } else {
        (h[j], (h[j], h[j]))
    }
}
fn value_for_ceil(h: &[f64], c: i128) -> (f64, (f64, f64)) {
    // n·p not whole, ceil = c: index c-1 clamped
    let n = h.len() as i128;
    let j = (c - 1).clamp(0, n - 1) as usize;
    (h[j], (h[j], h[j]))
}
fn mk(v: Vec<(f64, (f64, f64))>, note: &'static str) -> SmallQ {
    SmallQ { accept: v.iter().map(|x| x.0).collect(), bracket: v.iter().map(|x| x.1).collect(), note }
}

pub fn small_quantile(p: f64, obs: &[f64]) -> SmallQ {
    assert!(!obs.is_empty() && obs.len() <= 4 && (0. ..=1.).contains(&p));
    let mut h = obs.to_vec();
    h.sort_by(|a, b| a.partial_cmp(b).unwrap());
    let n = h.len() as i128;
    if p == 0. {
        return mk(vec![(h[0], (h[0], h[0]))], "p = 0: minimum");
    }
    // p = m·2^e exactly, m odd, e <= 0 for p in (0,1]
    let (m, e) = decompose(p);
    let m = m as i128;
    if e >= 0 {
        // p == 1
        let m = h[h.len() - 1];
        return mk(vec![(m, (m, m))], "p = 1: maximum");
    }
    let sh = (-e) as u32;
    // n·p = n·m / 2^sh
    if sh >= 120 {
        // p < 2^-60: 0 < n·p << 1, not near a whole number >= 1; near 0 only
        return mk(vec![(h[0], (h[0], h[0]))], "tiny p: ceil(n·p) = 1");
    }
    let num = n * m;
    let den: i128 = 1i128 << sh;
    let fl = num / den;
    let rem = num % den;
    if rem == 0 {
        return mk(vec![value_for_whole(&h, fl)], "n·p whole");
    }
    let ceil = fl + 1;
    let mut accept = vec![value_for_ceil(&h, ceil)];
    // within one rounding of a whole number: |n·p − k| <= 4u·n  (u = 2^-53)
    // compare rem/den and (den-rem)/den against n·2^-51
    let near = |dist: i128| -> bool {
        // dist/den <= n / 2^51  <=>  dist·2^51 <= n·den   (use f64 for the huge side safely)
        (dist as f64) * (2.0f64).powi(51) <= (n as f64) * (den as f64)
    };
    if near(rem) && fl >= 1 {
        accept.push(value_for_whole(&h, fl));
    }
    if near(den - rem) {
        accept.push(value_for_whole(&h, ceil));
    }
    mk(accept, "n·p not whole")
}
