//! The P² algorithm exactly as printed in Jain & Chlamtac, "The P² Algorithm for Dynamic
//! Calculation of Quantiles and Histograms Without Storing Observations", CACM 28(10), 1985,
//! Box 1.  1-based arrays as in the paper (index 0 unused), paper's expression order.

#[derive(Clone, Debug, PartialEq)]
pub struct P2 {
    pub p: f64,
    pub q: [f64; 6],   // marker heights q_1..q_5
    pub n: [i64; 6],   // marker positions n_1..n_5
    pub np: [f64; 6],  // desired marker positions n'_1..n'_5
    pub dnp: [f64; 6], // increments dn'_1..dn'_5
}

impl P2 {
    /// A. Initialization from the first five observations.
    pub fn init(p: f64, first5: &[f64]) -> P2 {
        assert_eq!(first5.len(), 5);
        let mut s = first5.to_vec();
        s.sort_by(|a, b| a.partial_cmp(b).unwrap());
        P2 {
            p,
            q: [f64::NAN, s[0], s[1], s[2], s[3], s[4]],
            n: [0, 1, 2, 3, 4, 5],
            np: [f64::NAN, 1., 1. + 2. * p, 1. + 4. * p, 3. + 2. * p, 5.],
            dnp: [f64::NAN, 0., p / 2., p, (1. + p) / 2., 1.],
        }
    }

    /// B. One subsequent observation x_j, j >= 6.
    pub fn observe(&mut self, x: f64) {
        let q = &mut self.q;
        // B.1 find cell k such that q_k <= x < q_{k+1}; adjust extreme values if necessary
        let k: usize;
        if x < q[1] {
            q[1] = x;
            k = 1;
        } else if x < q[2] {
            k = 1;
        } else if x < q[3] {
            k = 2;
        } else if x < q[4] {
            k = 3;
        } else if x <= q[5] {
            k = 4;
        } else {
            q[5] = x;
            k = 4;
        }
        // B.2 increment positions of markers k+1 through 5; update desired positions
        for i in (k + 1)..=5 {
            self.n[i] += 1;
        }
        for i in 1..=5 {
            self.np[i] += self.dnp[i];
        }
        // B.3 adjust heights of markers 2-4 if necessary
        for i in 2..=4 {
            let d = self.np[i] - self.n[i] as f64;
            if (d >= 1. && self.n[i + 1] - self.n[i] > 1) || (d <= -1. && self.n[i - 1] - self.n[i] < -1) {
                let di: i64 = if d >= 0. { 1 } else { -1 };
                let d = di as f64;
                let qp = self.parabolic(i, di);
                if self.q[i - 1] < qp && qp < self.q[i + 1] {
                    self.q[i] = qp;
                } else {
                    let j = (i as i64 + di) as usize;
                    self.q[i] = self.q[i] + d * (self.q[j] - self.q[i]) / (self.n[j] - self.n[i]) as f64;
                }
                self.n[i] += di;
            }
        }
    }

    /// piecewise-parabolic prediction (P²) formula
    fn parabolic(&self, i: usize, di: i64) -> f64 {
        let (q, n) = (&self.q, &self.n);
        let d = di as f64;
        q[i] + d / (n[i + 1] - n[i - 1]) as f64
            * ((n[i] - n[i - 1] + di) as f64 * (q[i + 1] - q[i]) / (n[i + 1] - n[i]) as f64
                + (n[i + 1] - n[i] - di) as f64 * (q[i] - q[i - 1]) / (n[i] - n[i - 1]) as f64)
    }

    pub fn estimate(&self) -> f64 {
        self.q[3]
    }
    pub fn key(&self) -> String {
        format!("{:?}{:?}{:?}", &self.q[1..], &self.n[1..], &self.np[1..])
    }
}
