//! Reference models: deliberately boring re-statements of what the properties prescribe.
pub mod p2;
pub mod smallq;
pub mod hist;
