//! Histogram reference models: linear bin scan (C06), first-offending-position validation
//! (C12), ghost bin vectors (C13).

/// The unique half-open bin containing x, by linear scan.
pub fn ref_find(edges: &[f64], x: f64) -> Option<usize> {
    let len = edges.len() - 1;
    if x.is_nan() {
        return None;
    }
    if !(edges[0] <= x && x < edges[len]) {
        return None;
    }
    for i in 0..len {
        if edges[i] <= x && x < edges[i + 1] {
            return Some(i);
        }
    }
    unreachable!("non-decreasing edges always contain an in-range sample in exactly one bin")
}

#[derive(Clone, Copy, Debug, PartialEq, Eq)]
pub enum RefRangeErr {
    NotEnoughRanges,
    NotSorted,
    NaN,
}

/// from_ranges reference: walk positions 0..=LEN, the first offending position decides.
pub fn ref_from_ranges(len: usize, input: &[f64]) -> Result<Vec<f64>, RefRangeErr> {
    let mut out = Vec::with_capacity(len + 1);
    for i in 0..=len {
        match input.get(i) {
            None => return Err(RefRangeErr::NotEnoughRanges),
            Some(r) => {
                if r.is_nan() {
                    return Err(RefRangeErr::NaN);
                }
                if i > 0 && *r < input[i - 1] {
                    return Err(RefRangeErr::NotSorted);
                }
                out.push(*r);
            }
        }
    }
    Ok(out)
}

pub fn next_up(x: f64) -> f64 {
    if x.is_nan() || x == f64::INFINITY {
        return x;
    }
    if x == 0.0 {
        return f64::from_bits(1);
    }
    let b = x.to_bits();
    if x > 0.0 {
        f64::from_bits(b + 1)
    } else {
        f64::from_bits(b - 1)
    }
}
pub fn next_down(x: f64) -> f64 {
    -next_up(-x)
}

/// The sample set of C06 for one edge vector.
pub fn sample_set(edges: &[f64]) -> Vec<f64> {
    let mut v: Vec<f64> = Vec::new();
    for &e in edges {
        v.push(e);
        v.push(next_up(e));
        v.push(next_down(e));
    }
    for w in edges.windows(2) {
        if w[0].is_finite() && w[1].is_finite() && w[0] != w[1] {
            v.push(w[0] / 2. + w[1] / 2.);
        }
    }
    v.extend([f64::INFINITY, f64::NEG_INFINITY, f64::NAN, -0.0, 0.0, f64::MAX, f64::MIN, 5e-324, -5e-324]);
    let mut seen = std::collections::HashSet::new();
    v.retain(|x| seen.insert(if x.is_nan() { u64::MAX } else { x.to_bits() }));
    v
}
