//! Exact arithmetic for the reference oracles.
//!
//! No bignum crate is available offline, so this is a minimal arbitrary-precision signed
//! integer (sign + magnitude, little-endian u32 limbs) with exactly the operations the
//! oracles need: add, sub, mul, shl, cmp, pow, conversion from f64 and to f64 (≤ 1 ulp).
//! Every finite f64 is a dyadic rational m·2^e, so sums of powers of observations are exact
//! integers once a common exponent is factored out.
//!
//! `Rat` is a value num/den · 2^exp with num, den integers (den > 0).  Differences between a
//! computed f64 and an exact `Rat` are formed exactly before the single final rounding.

use std::cmp::Ordering;

#[derive(Clone, Debug, PartialEq, Eq)]
pub struct Big {
    neg: bool,
    mag: Vec<u32>, // no trailing zero limbs; zero = empty, neg = false
}

fn trim(v: &mut Vec<u32>) {
    while let Some(&0) = v.last() {
        v.pop();
    }
}

fn cmp_mag(a: &[u32], b: &[u32]) -> Ordering {
    if a.len() != b.len() {
        return a.len().cmp(&b.len());
    }
    for i in (0..a.len()).rev() {
        if a[i] != b[i] {
            return a[i].cmp(&b[i]);
        }
    }
    Ordering::Equal
}

fn add_mag(a: &[u32], b: &[u32]) -> Vec<u32> {
    let (a, b) = if a.len() >= b.len() { (a, b) } else { (b, a) };
    let mut out = Vec::with_capacity(a.len() + 1);
    let mut carry = 0u64;
    for i in 0..a.len() {
        let s = a[i] as u64 + if i < b.len() { b[i] as u64 } else { 0 } + carry;
        out.push(s as u32);
        carry = s >> 32;
    }
    if carry > 0 {
        out.push(carry as u32);
    }
    out
}

/// a - b, requires |a| >= |b|
fn sub_mag(a: &[u32], b: &[u32]) -> Vec<u32> {
    let mut out = Vec::with_capacity(a.len());
    let mut borrow = 0i64;
    for i in 0..a.len() {
        let mut d = a[i] as i64 - borrow - if i < b.len() { b[i] as i64 } else { 0 };
        if d < 0 {
            d += 1 << 32;
            borrow = 1;
        } else {
            borrow = 0;
        }
        out.push(d as u32);
    }
    debug_assert_eq!(borrow, 0);
    trim(&mut out);
    out
}

fn mul_mag(a: &[u32], b: &[u32]) -> Vec<u32> {
    if a.is_empty() || b.is_empty() {
        return Vec::new();
    }
    let mut out = vec![0u32; a.len() + b.len()];
    for i in 0..a.len() {
        let mut carry = 0u64;
        let ai = a[i] as u64;
        if ai == 0 {
            continue;
        }
        for j in 0..b.len() {
            let t = ai * (b[j] as u64) + out[i + j] as u64 + carry;
            out[i + j] = t as u32;
            carry = t >> 32;
        }
        let mut k = i + b.len();
        while carry > 0 {
            let t = out[k] as u64 + carry;
            out[k] = t as u32;
            carry = t >> 32;
            k += 1;
        }
    }
    trim(&mut out);
    out
}

impl Big {
    pub fn zero() -> Big {
        Big { neg: false, mag: Vec::new() }
    }
    pub fn from_u64(x: u64) -> Big {
        let mut mag = vec![x as u32, (x >> 32) as u32];
        trim(&mut mag);
        Big { neg: false, mag }
    }
    pub fn from_i64(x: i64) -> Big {
        let mut b = Big::from_u64(x.unsigned_abs());
        b.neg = x < 0 && !b.mag.is_empty();
        b
    }
    pub fn is_zero(&self) -> bool {
        self.mag.is_empty()
    }
    pub fn is_neg(&self) -> bool {
        self.neg
    }
    pub fn signum(&self) -> i32 {
        if self.mag.is_empty() {
            0
        } else if self.neg {
            -1
        } else {
            1
        }
    }
    pub fn neg(&self) -> Big {
        Big { neg: !self.neg && !self.mag.is_empty(), mag: self.mag.clone() }
    }
    pub fn abs(&self) -> Big {
        Big { neg: false, mag: self.mag.clone() }
    }
    pub fn add(&self, o: &Big) -> Big {
        if self.neg == o.neg {
            return Big { neg: self.neg, mag: add_mag(&self.mag, &o.mag) };
        }
        match cmp_mag(&self.mag, &o.mag) {
            Ordering::Equal => Big::zero(),
            Ordering::Greater => Big { neg: self.neg, mag: sub_mag(&self.mag, &o.mag) },
            Ordering::Less => Big { neg: o.neg, mag: sub_mag(&o.mag, &self.mag) },
        }
    }
    pub fn sub(&self, o: &Big) -> Big {
        self.add(&o.neg())
    }
    pub fn mul(&self, o: &Big) -> Big {
        let mag = mul_mag(&self.mag, &o.mag);
        let neg = (self.neg != o.neg) && !mag.is_empty();
        Big { neg, mag }
    }
    pub fn mul_u64(&self, x: u64) -> Big {
        self.mul(&Big::from_u64(x))
    }
    pub fn pow(&self, mut e: u32) -> Big {
        let mut base = self.clone();
        let mut acc = Big::from_u64(1);
        while e > 0 {
            if e & 1 == 1 {
                acc = acc.mul(&base);
            }
            e >>= 1;
            if e > 0 {
                base = base.mul(&base);
            }
        }
        acc
    }
    pub fn shl(&self, bits: u64) -> Big {
        if self.mag.is_empty() {
            return Big::zero();
        }
        let limbs = (bits / 32) as usize;
        let r = (bits % 32) as u32;
        let mut mag = vec![0u32; limbs];
        if r == 0 {
            mag.extend_from_slice(&self.mag);
        } else {
            let mut carry = 0u32;
            for &l in &self.mag {
                mag.push((l << r) | carry);
                carry = l >> (32 - r);
            }
            if carry > 0 {
                mag.push(carry);
            }
        }
        Big { neg: self.neg, mag }
    }
    /// hexadecimal magnitude with sign (for the Python cross-check of the oracle)
    pub fn to_hex(&self) -> String {
        if self.mag.is_empty() {
            return "0".into();
        }
        let mut s = String::new();
        if self.neg {
            s.push('-');
        }
        for (i, l) in self.mag.iter().rev().enumerate() {
            if i == 0 {
                s.push_str(&format!("{:x}", l));
            } else {
                s.push_str(&format!("{:08x}", l));
            }
        }
        s
    }
    pub fn bit_len(&self) -> u64 {
        match self.mag.last() {
            None => 0,
            Some(&top) => (self.mag.len() as u64 - 1) * 32 + (32 - top.leading_zeros() as u64),
        }
    }
    pub fn cmp(&self, o: &Big) -> Ordering {
        match (self.neg, o.neg) {
            (false, true) => Ordering::Greater,
            (true, false) => Ordering::Less,
            (false, false) => cmp_mag(&self.mag, &o.mag),
            (true, true) => cmp_mag(&o.mag, &self.mag),
        }
    }
    /// Top 64 bits of |self| as (m, e): |self| = m·2^e·(1+δ), 0 ≤ δ < 2^-63 (truncation),
    /// m has its top bit set (unless self is zero: (0,0)).
    fn top64(&self) -> (u64, i64) {
        let bl = self.bit_len();
        if bl == 0 {
            return (0, 0);
        }
        if bl <= 64 {
            let mut m = 0u64;
            for (i, &l) in self.mag.iter().enumerate() {
                m |= (l as u64) << (32 * i);
            }
            let sh = 64 - bl;
            return (m << sh, -(sh as i64));
        }
        let shift = bl - 64; // drop this many low bits
        let limb = (shift / 32) as usize;
        let r = (shift % 32) as u32;
        let get = |i: usize| -> u64 { if i < self.mag.len() { self.mag[i] as u64 } else { 0 } };
        let lo = get(limb) | (get(limb + 1) << 32);
        let hi = get(limb + 2);
        let m = if r == 0 { lo } else { (lo >> r) | (hi << (64 - r)) };
        (m, shift as i64)
    }
    /// Conversion to f64 with relative error ≤ 2^-52 (never used for exact comparisons).
    pub fn to_f64(&self) -> f64 {
        let (m, e) = self.top64();
        let v = ldexp(m as f64, e);
        if self.neg {
            -v
        } else {
            v
        }
    }
}

/// x · 2^e without intermediate overflow/underflow surprises.
pub fn ldexp(mut x: f64, mut e: i64) -> f64 {
    if x == 0.0 || !x.is_finite() {
        return x;
    }
    while e > 1000 {
        x *= f64::from_bits(((1000 + 1023) as u64) << 52);
        e -= 1000;
        if !x.is_finite() {
            return x;
        }
    }
    while e < -1000 {
        x *= f64::from_bits(((-1000 + 1023) as u64) << 52);
        e += 1000;
        if x == 0.0 {
            return x;
        }
    }
    // now |e| <= 1000: split into two exact power-of-two factors (second step may round
    // once when the result is subnormal; acceptable, error accounted by callers' slack)
    let h = e / 2;
    let f1 = f64::from_bits(((h + 1023) as u64) << 52);
    let f2 = f64::from_bits(((e - h + 1023) as u64) << 52);
    x * f1 * f2
}

/// Decompose a finite f64 exactly: x = m · 2^e with m an integer (|m| < 2^53).
pub fn decompose(x: f64) -> (i64, i64) {
    assert!(x.is_finite(), "decompose: non-finite {x}");
    if x == 0.0 {
        return (0, 0);
    }
    let bits = x.to_bits();
    let neg = bits >> 63 == 1;
    let exp = ((bits >> 52) & 0x7ff) as i64;
    let frac = (bits & ((1u64 << 52) - 1)) as i64;
    let (mut m, mut e) = if exp == 0 { (frac, -1074) } else { (frac | (1 << 52), exp - 1075) };
    while m & 1 == 0 {
        m >>= 1;
        e += 1;
    }
    (if neg { -m } else { m }, e)
}

/// Exact rational num/den · 2^exp, den > 0.
#[derive(Clone, Debug)]
pub struct Rat {
    pub num: Big,
    pub den: Big,
    pub exp: i64,
}

impl Rat {
    pub fn new(num: Big, den: Big, exp: i64) -> Rat {
        assert!(den.signum() > 0);
        Rat { num, den, exp }
    }
    pub fn zero() -> Rat {
        Rat { num: Big::zero(), den: Big::from_u64(1), exp: 0 }
    }
    pub fn from_f64(x: f64) -> Rat {
        let (m, e) = decompose(x);
        Rat { num: Big::from_i64(m), den: Big::from_u64(1), exp: e }
    }
    pub fn is_zero(&self) -> bool {
        self.num.is_zero()
    }
    pub fn dump(&self) -> serde_json::Value {
        serde_json::json!({"num": self.num.to_hex(), "den": self.den.to_hex(), "exp": self.exp, "f64": format!("{:016x}", self.to_f64().to_bits())})
    }
    pub fn signum(&self) -> i32 {
        self.num.signum()
    }
    /// f64 approximation, relative error ≤ 2^-51.
    pub fn to_f64(&self) -> f64 {
        if self.num.is_zero() {
            return 0.0;
        }
        let (mn, en) = self.num.top64();
        let (md, ed) = self.den.top64();
        let q = (mn as f64) / (md as f64); // in (0.5, 2)
        let v = ldexp(q, en - ed + self.exp);
        if self.num.is_neg() {
            -v
        } else {
            v
        }
    }
    /// |got − self| formed exactly, then rounded once (relative error ≤ 2^-51).
    pub fn abs_diff_f64(&self, got: f64) -> f64 {
        if !got.is_finite() {
            return f64::INFINITY;
        }
        self.sub(&Rat::from_f64(got)).to_f64().abs()
    }
    pub fn sub(&self, o: &Rat) -> Rat {
        // a/b·2^e − c/d·2^f = (a·d·2^(e−g) − c·b·2^(f−g)) / (b·d) · 2^g, g = min(e,f)
        let g = self.exp.min(o.exp);
        let l = self.num.mul(&o.den).shl((self.exp - g) as u64);
        let r = o.num.mul(&self.den).shl((o.exp - g) as u64);
        Rat { num: l.sub(&r), den: self.den.mul(&o.den), exp: g }
    }
    pub fn add(&self, o: &Rat) -> Rat {
        self.sub(&o.neg())
    }
    pub fn neg(&self) -> Rat {
        Rat { num: self.num.neg(), den: self.den.clone(), exp: self.exp }
    }
    pub fn abs(&self) -> Rat {
        Rat { num: self.num.abs(), den: self.den.clone(), exp: self.exp }
    }
    pub fn mul(&self, o: &Rat) -> Rat {
        Rat { num: self.num.mul(&o.num), den: self.den.mul(&o.den), exp: self.exp + o.exp }
    }
    pub fn mul_u64(&self, k: u64) -> Rat {
        Rat { num: self.num.mul_u64(k), den: self.den.clone(), exp: self.exp }
    }
    pub fn div_u64(&self, k: u64) -> Rat {
        assert!(k > 0);
        Rat { num: self.num.clone(), den: self.den.mul_u64(k), exp: self.exp }
    }
    /// self / o, o != 0
    pub fn div(&self, o: &Rat) -> Rat {
        assert!(!o.num.is_zero());
        let mut num = self.num.mul(&o.den);
        let den = self.den.mul(&o.num.abs());
        if o.num.is_neg() {
            num = num.neg();
        }
        Rat { num, den, exp: self.exp - o.exp }
    }
    pub fn cmp(&self, o: &Rat) -> Ordering {
        match self.sub(o).signum() {
            0 => Ordering::Equal,
            1 => Ordering::Greater,
            _ => Ordering::Less,
        }
    }
}

/// Exact statistics of a multiset of finite f64 values.
#[derive(Clone, Debug)]
pub struct ExactStats {
    pub n: u64,
    pub mean: Rat,
    /// central moments m_p, p = 0..=max_p (m_0 = 1, m_1 = 0)
    pub m: Vec<Rat>,
    /// absolute central moments A_p
    pub a: Vec<Rat>,
    pub max_abs: f64,
    pub min: f64,
    pub max: f64,
    // f64 conveniences (each ≤ 2^-51 relative error)
    pub sigma: f64,
    pub kappa: f64,
}

impl ExactStats {
    /// `xs` finite, non-empty.
    pub fn new(xs: &[f64], max_p: usize) -> ExactStats {
        let w: Vec<(f64, u64)> = xs.iter().map(|x| (*x, 1u64)).collect();
        ExactStats::new_weighted(&w, max_p)
    }

    /// Exact statistics of a multiset given as (value, multiplicity) pairs (total count < 2^63).
    pub fn new_weighted(xs: &[(f64, u64)], max_p: usize) -> ExactStats {
        let xs: Vec<(f64, u64)> = xs.iter().copied().filter(|p| p.1 > 0).collect();
        assert!(!xs.is_empty());
        let n: u64 = xs.iter().map(|p| p.1).sum();
        let dec: Vec<(i64, i64)> = xs.iter().map(|&(x, _)| decompose(x)).collect();
        let emin = dec.iter().filter(|d| d.0 != 0).map(|d| d.1).min().unwrap_or(0);
        let ints: Vec<Big> = dec
            .iter()
            .map(|&(m, e)| if m == 0 { Big::zero() } else { Big::from_i64(m).shl((e - emin) as u64) })
            .collect();
        let mults: Vec<Big> = xs.iter().map(|p| Big::from_u64(p.1)).collect();
        let mut s1 = Big::zero();
        for (v, m) in ints.iter().zip(mults.iter()) {
            s1 = s1.add(&v.mul(m));
        }
        let nb = Big::from_u64(n);
        let mean = Rat::new(s1.clone(), nb.clone(), emin);
        // d_i = n·x_i − S1 (integers, unit 2^emin / n)
        let ds: Vec<Big> = ints.iter().map(|v| v.mul(&nb).sub(&s1)).collect();
        let mut m = Vec::with_capacity(max_p + 1);
        let mut a = Vec::with_capacity(max_p + 1);
        let mut pows: Vec<Big> = vec![Big::from_u64(1); ds.len()];
        let mut npow = nb.clone(); // n^(p+1)
        for p in 0..=max_p {
            if p == 0 {
                m.push(Rat::new(Big::from_u64(1), Big::from_u64(1), 0));
                a.push(Rat::new(Big::from_u64(1), Big::from_u64(1), 0));
            } else {
                for (pw, d) in pows.iter_mut().zip(ds.iter()) {
                    *pw = pw.mul(d);
                }
                npow = npow.mul(&nb);
                let mut t = Big::zero();
                let mut ta = Big::zero();
                for (pw, mu) in pows.iter().zip(mults.iter()) {
                    let term = pw.mul(mu);
                    t = t.add(&term);
                    ta = ta.add(&term.abs());
                }
                m.push(Rat::new(t, npow.clone(), emin * p as i64));
                a.push(Rat::new(ta, npow.clone(), emin * p as i64));
            }
        }
        let max_abs = xs.iter().fold(0.0f64, |acc, p| acc.max(p.0.abs()));
        let min = xs.iter().map(|p| p.0).fold(f64::INFINITY, f64::min);
        let max = xs.iter().map(|p| p.0).fold(f64::NEG_INFINITY, f64::max);
        let sigma = if max_p >= 2 { m[2].to_f64().sqrt() } else { f64::NAN };
        let kappa = if sigma > 0.0 { 1.0 + max_abs / sigma } else { f64::INFINITY };
        ExactStats { n, mean, m, a, max_abs, min, max, sigma, kappa }
    }
}

/// Σ mult · Π columns, exactly.
pub fn exact_sum_products_w(rows: &[(Vec<f64>, u64)], cols: &[usize]) -> Rat {
    let mut acc = Rat::zero();
    for (r, m) in rows {
        let mut t = Rat::new(Big::from_u64(*m), Big::from_u64(1), 0);
        for &c in cols {
            t = t.mul(&Rat::from_f64(r[c]));
        }
        acc = acc.add(&t);
    }
    acc
}

/// Exact statistics of weighted pairs / xy pairs: generic exact sums over products.
/// Returns Σ Π over the given columns as a Rat (each row multiplies the listed columns).
pub fn exact_sum_products(rows: &[Vec<f64>], cols: &[usize]) -> Rat {
    let mut acc = Rat::zero();
    for r in rows {
        let mut t = Rat::new(Big::from_u64(1), Big::from_u64(1), 0);
        for &c in cols {
            t = t.mul(&Rat::from_f64(r[c]));
        }
        acc = acc.add(&t);
    }
    acc
}

#[cfg(test)]
mod tests {
    use super::*;

    #[test]
    fn big_basic() {
        let a = Big::from_u64(u64::MAX);
        let b = a.mul(&a);
        assert_eq!(b.bit_len(), 128);
        let c = b.sub(&b);
        assert!(c.is_zero());
        let d = Big::from_i64(-5).add(&Big::from_i64(3));
        assert_eq!(d, Big::from_i64(-2));
        assert_eq!(Big::from_i64(3).pow(5), Big::from_i64(243));
        assert_eq!(Big::from_i64(3).shl(40).to_f64(), 3.0 * (1u64 << 40) as f64);
        assert_eq!(Big::from_i64(-7).to_f64(), -7.0);
    }

    #[test]
    fn decompose_roundtrip() {
        for &x in &[1.0, 0.1, -0.7, 1e30, -1e-30, 5e-324, 2.3e-308, 1e150, 1e9 + 7.0] {
            let (m, e) = decompose(x);
            assert_eq!(ldexp(m as f64, e), x);
            assert_eq!(Rat::from_f64(x).to_f64(), x);
        }
    }

    #[test]
    fn stats_simple() {
        let s = ExactStats::new(&[1., 2., 3., 4., 5.], 4);
        assert_eq!(s.mean.to_f64(), 3.0);
        assert_eq!(s.m[2].to_f64(), 2.0);
        assert_eq!(s.m[3].to_f64(), 0.0);
        assert_eq!(s.m[4].to_f64(), 6.8);
        let s = ExactStats::new(&[1e9 + 4., 1e9 + 7., 1e9 + 13., 1e9 + 16.], 2);
        assert_eq!(s.m[2].to_f64(), 22.5);
        assert_eq!(s.mean.abs_diff_f64(1e9 + 10.), 0.0);
    }
}
