//! Cross-check enumerator: any explorer `Spec` wrapped as a `stateright::Model`.
//!
//! Two independent enumerators (the engine's own BFS and stateright's checker) must agree on
//! the number of distinct states within the same bound and on the verdict.  This is the guard
//! against a bug in the engine's own expansion / deduplication code.  The wrapper state
//! carries the spec state behind an `Arc`, hashes and compares by the spec's canonical key, and
//! records whether the transition that produced it violated the oracle (that flag is part of the
//! state's identity, so a violating transition into a known state is still a new, checked state).

use crate::explore::Spec;
use stateright::{Checker, Model, Property};
use std::hash::{Hash, Hasher};
use std::sync::Arc;

pub struct SrState<S> {
    pub key: String,
    pub inner: Arc<S>,
    pub depth: usize,
    pub bad: bool,
}
impl<S> Clone for SrState<S> {
    fn clone(&self) -> Self {
        SrState { key: self.key.clone(), inner: self.inner.clone(), depth: self.depth, bad: self.bad }
    }
}
impl<S> std::fmt::Debug for SrState<S> {
    fn fmt(&self, f: &mut std::fmt::Formatter<'_>) -> std::fmt::Result {
        write!(f, "{}", self.key)
    }
}
impl<S> PartialEq for SrState<S> {
    fn eq(&self, o: &Self) -> bool {
        // `bad` belongs to the identity: a violating transition into an already visited state
        // (e.g. a failed restore that leaves the estimator unchanged) must not be deduplicated
        // away before stateright evaluates the property on it
        self.key == o.key && self.bad == o.bad
    }
}
impl<S> Eq for SrState<S> {}
impl<S> Hash for SrState<S> {
    fn hash<H: Hasher>(&self, h: &mut H) {
        self.key.hash(h);
        self.bad.hash(h)
    }
}

pub struct SrModel<Sp: Spec> {
    pub spec: Arc<Sp>,
    pub max_depth: usize,
}

impl<Sp: Spec + Send + 'static> Model for SrModel<Sp>
where
    Sp::Op: std::fmt::Debug + PartialEq,
{
    type State = SrState<Sp::State>;
    type Action = Sp::Op;
    fn init_states(&self) -> Vec<Self::State> {
        self.spec
            .init()
            .into_iter()
            .map(|s| {
                let bad = !self.spec.check_init(&s).is_empty();
                SrState { key: self.spec.key(&s), inner: Arc::new(s), depth: 0, bad }
            })
            .collect()
    }
    fn actions(&self, state: &Self::State, actions: &mut Vec<Self::Action>) {
        if state.depth < self.max_depth {
            actions.extend(self.spec.ops(&state.inner));
        }
    }
    fn next_state(&self, last: &Self::State, action: Self::Action) -> Option<Self::State> {
        let t = self.spec.step(&last.inner, &action);
        let bad = !self.spec.check(&last.inner, &action, &t).is_empty();
        Some(SrState { key: self.spec.key(&t), inner: Arc::new(t), depth: last.depth + 1, bad })
    }
    fn properties(&self) -> Vec<Property<Self>> {
        vec![Property::<Self>::always("oracle holds on every transition", |_, s| !s.bad)]
    }
}

pub struct SrResult {
    pub unique_states: usize,
    pub violated: bool,
}

/// Single-threaded BFS (FIFO, hence level ordered: every state is first reached at its minimal
/// depth, so a depth bound cuts the same set of states as the engine's level-synchronous BFS).
pub fn cross_check<Sp: Spec + Send + 'static>(spec: Arc<Sp>, max_depth: usize) -> SrResult
where
    Sp::Op: std::fmt::Debug + PartialEq,
{
    let model = SrModel { spec, max_depth };
    let checker = model.checker().threads(1).spawn_bfs().join();
    let violated = checker.discovery("oracle holds on every transition").is_some();
    SrResult { unique_states: checker.unique_state_count(), violated }
}
