//! The error envelopes of DESIGN.md section 4 — the only implementation of those constants —
//! and the moment-family oracle built on them.

use crate::exact::{ExactStats, Rat};
use crate::subjects::{Stat, Val};

pub const U: f64 = 1.1102230246251565e-16; // 2^-53
pub const SLACK: f64 = 1.0 + 1e-9;
pub const C_MEAN: f64 = 8.0;
pub const C_VAR: f64 = 16.0;
pub const C_COV: f64 = 16.0;
pub const C_PEARSON: f64 = 32.0;
pub const C_WMEAN: f64 = 8.0;
pub const KAPPA_MAX: f64 = 1e12;
/// Below this magnitude (2^60 · f64::MIN_POSITIVE) the p-th absolute central moment — the natural
/// scale of the envelope — cannot be carried in an f64 with relative accuracy: outside the domain
/// of the envelope clauses for orders >= 3 (DESIGN.md section 4, Domain).
pub const UNDERFLOW_GUARD: f64 = 2.5e-290;

pub fn c_p(p: usize) -> f64 {
    4.0 * (2.0f64).powi(p as i32)
}
/// standardized moment constant: C_p + 16·p/2·2 = C_p + 16·p  (p=3: 80, p=4: 128)
pub fn c_std(p: usize) -> f64 {
    c_p(p) + 16.0 * p as f64
}

/// What the oracle expects of one accessor.
#[derive(Clone, Debug)]
pub enum Expect {
    /// outside the judged domain of this clause
    Skip(&'static str),
    Nan,
    /// numerically equal (−0.0 == 0.0)
    Exactly(f64),
    /// |got − exact| ≤ tol, difference formed exactly
    WithinRat { exact: Rat, tol: f64 },
    /// |got − exact| ≤ tol, exact known only as an f64 (tol already contains the 8u|ex| slack)
    WithinF { exact: f64, tol: f64 },
    /// the documented zero-variance assertion of standardized_moment(p >= 3)
    PanicZeroVariance,
    /// any value, but no panic
    NoPanic,
}

#[derive(Clone, Debug)]
pub struct Judged {
    pub ok: bool,
    /// |error| / tolerance where an envelope applies (diagnostic)
    pub ratio: Option<f64>,
    pub expected: String,
}

pub fn judge(e: &Expect, got: &Val) -> Judged {
    match (e, got) {
        (Expect::Skip(_), _) => Judged { ok: true, ratio: None, expected: "skip".into() },
        (Expect::NoPanic, Val::F(_)) => Judged { ok: true, ratio: None, expected: "any value".into() },
        // the documented exception: the statement allows this call to panic on zero variance; it
        // does not demand the panic, nor a particular message
        (Expect::PanicZeroVariance, _) => Judged { ok: true, ratio: None, expected: "the documented zero-variance assertion (or any value)".into() },
        (_, Val::Panic(_)) => Judged { ok: false, ratio: None, expected: format!("{e:?} (no panic)") },
        (Expect::Nan, Val::F(g)) => Judged { ok: g.is_nan(), ratio: None, expected: "NaN".into() },
        (Expect::Exactly(x), Val::F(g)) => Judged { ok: *g == *x, ratio: None, expected: format!("exactly {x:?}") },
        (Expect::WithinRat { exact, tol }, Val::F(g)) => {
            if !g.is_finite() {
                return Judged { ok: false, ratio: None, expected: format!("{:?} ± {:e}", exact.to_f64(), tol) };
            }
            let exf = exact.to_f64();
            let quick = (g - exf).abs();
            // fast path: the f64 rendering of the exact value is within 4u·|ex| of it, and
            // every envelope is at least 8u·|ex|, so quick ≤ tol/2 implies the exact test.
            if quick <= 0.5 * tol {
                return Judged { ok: true, ratio: Some(if *tol > 0.0 { quick / tol } else { 0.0 }), expected: String::new() };
            }
            let d = exact.abs_diff_f64(*g);
            Judged { ok: d <= *tol, ratio: Some(if *tol > 0.0 { d / tol } else { f64::INFINITY }), expected: format!("{exf:?} ± {tol:e} (|diff| = {d:e})") }
        }
        (Expect::WithinF { exact, tol }, Val::F(g)) => {
            if !g.is_finite() {
                return Judged { ok: false, ratio: None, expected: format!("{exact:?} ± {tol:e}") };
            }
            let d = (g - exact).abs();
            Judged { ok: d <= *tol, ratio: Some(if *tol > 0.0 { d / tol } else if d == 0.0 { 0.0 } else { f64::INFINITY }), expected: format!("{exact:?} ± {tol:e} (|diff| = {d:e})") }
        }
    }
}

/// Is the multiset inside the envelope domain of C01–C04 (σ > 0, κ ≤ 1e12), or a single
/// observation?
pub fn in_domain(ex: &ExactStats) -> bool {
    ex.n == 1 || (ex.sigma > 0.0 && ex.kappa <= KAPPA_MAX)
}

/// Expected value of `stat` for a moment-family estimator that absorbed the multiset `ex`
/// (n ≥ 1).  `order` is the highest central moment available in `ex`.
pub fn expect_moment(stat: Stat, ex: &ExactStats) -> Expect {
    let n = ex.n as f64;
    let nn = ex.n;
    if nn == 1 {
        // sigma = 0: mean bound 8·u·|x| (C16 additionally demands exactness), variance-type
        // statistics exactly their C16 values.
        return match stat {
            Stat::Mean | Stat::UnweightedMean => Expect::WithinRat { exact: ex.mean.clone(), tol: C_MEAN * U * ex.max_abs * SLACK },
            Stat::PopVar | Stat::VarOfMean | Stat::Error => Expect::Exactly(0.0),
            Stat::SampleVar | Stat::SampleExKurt => Expect::Nan,
            Stat::Skewness | Stat::Kurtosis => Expect::Exactly(0.0),
            Stat::SampleSkewness => Expect::Exactly(0.0),
            Stat::Central(0) => Expect::Exactly(1.0),
            Stat::Central(_) => Expect::Exactly(0.0),
            Stat::Standardized(0) => Expect::Exactly(1.0),
            Stat::Standardized(1) => Expect::Exactly(0.0),
            Stat::Standardized(2) => Expect::Exactly(1.0),
            Stat::Standardized(_) => Expect::PanicZeroVariance,
            _ => Expect::Skip("not a moment statistic"),
        };
    }
    // trivially defined values, independent of the data
    match stat {
        Stat::Central(0) => return Expect::Exactly(1.0),
        Stat::Central(1) => return Expect::Exactly(0.0),
        Stat::Standardized(0) => return Expect::Exactly(n),
        Stat::Standardized(1) => return Expect::Exactly(0.0),
        Stat::Standardized(2) => return Expect::Exactly(1.0),
        _ => {}
    }
    if !(ex.sigma > 0.0) {
        return Expect::Skip("zero spread (constant data): C16");
    }
    if ex.kappa > KAPPA_MAX {
        return Expect::Skip("kappa > 1e12");
    }
    let e = n * ex.kappa * U; // E
    let sigma = ex.sigma;
    let m2 = &ex.m[2];
    match stat {
        Stat::Mean | Stat::UnweightedMean => Expect::WithinRat { exact: ex.mean.clone(), tol: C_MEAN * n * U * (sigma + ex.max_abs) * SLACK },
        Stat::PopVar | Stat::Central(2) => Expect::WithinRat { exact: m2.clone(), tol: C_VAR * e * m2.to_f64() * SLACK },
        Stat::SampleVar => {
            let exact = m2.mul_u64(nn).div_u64(nn - 1);
            let tol = C_VAR * e * exact.to_f64() * SLACK;
            Expect::WithinRat { exact, tol }
        }
        Stat::VarOfMean => {
            let exact = m2.div_u64(nn - 1);
            let tol = C_VAR * e * exact.to_f64() * SLACK;
            Expect::WithinRat { exact, tol }
        }
        Stat::Error => {
            let exact = m2.div_u64(nn - 1).to_f64().sqrt();
            Expect::WithinF { exact, tol: C_VAR * e * exact * SLACK + 8.0 * U * exact }
        }
        Stat::Central(p) => {
            let p = p as usize;
            if p >= ex.m.len() {
                return Expect::Skip("order beyond oracle");
            }
            if ex.a[p].to_f64() < UNDERFLOW_GUARD {
                return Expect::Skip("the exact moment is not representable with relative accuracy (underflow)");
            }
            Expect::WithinRat { exact: ex.m[p].clone(), tol: c_p(p) * e * ex.a[p].to_f64() * SLACK }
        }
        Stat::Skewness | Stat::Standardized(3) => std_moment(ex, 3, e, 0.0),
        Stat::Kurtosis => std_moment(ex, 4, e, 3.0),
        Stat::Standardized(p) => std_moment(ex, p as usize, e, 0.0),
        Stat::SampleSkewness => {
            if nn == 2 {
                // exact value 0 (two points are symmetric); scale 1
                return Expect::WithinF { exact: 0.0, tol: c_std(3) * e * SLACK };
            }
            let g1 = ex.m[3].to_f64() / sigma.powi(3);
            let f = (n * (n - 1.0)).sqrt() / (n - 2.0);
            let s = f * ex.a[3].to_f64() / sigma.powi(3);
            let exact = f * g1;
            Expect::WithinF { exact, tol: c_std(3) * e * s * SLACK + 32.0 * U * s }
        }
        Stat::SampleExKurt => {
            if nn < 4 {
                return Expect::Nan;
            }
            let r = ex.m[4].to_f64() / (sigma.powi(2) * sigma.powi(2));
            let exact = (n - 1.0) / ((n - 2.0) * (n - 3.0)) * ((n + 1.0) * (r - 3.0) + 6.0);
            let s = (n - 1.0) * (n + 1.0) / ((n - 2.0) * (n - 3.0)) * ex.a[4].to_f64() / (sigma.powi(2) * sigma.powi(2));
            Expect::WithinF { exact, tol: c_std(4) * e * s * SLACK + 32.0 * U * (exact.abs() + s + 6.0) }
        }
        _ => Expect::Skip("not a moment statistic"),
    }
}

fn std_moment(ex: &ExactStats, p: usize, e: f64, minus: f64) -> Expect {
    if p >= ex.m.len() {
        return Expect::Skip("order beyond oracle");
    }
    if ex.a[p].to_f64() < UNDERFLOW_GUARD {
        return Expect::Skip("the exact moment is not representable with relative accuracy (underflow)");
    }
    let sp = ex.sigma.powi(p as i32);
    let exact = ex.m[p].to_f64() / sp - minus;
    let s = ex.a[p].to_f64() / sp;
    // 8u·(|ex|+minus+...) covers the oracle's own f64 arithmetic (≤ ~p+4 roundings on values ≤ s)
    Expect::WithinF { exact, tol: c_std(p) * e * s * SLACK + (16.0 + 4.0 * p as f64) * U * s }
}
