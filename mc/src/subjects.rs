//! The estimator types under test, behind one uniform observation interface.
//! Everything here calls the public API of `average` only.

use average::{Estimate, Merge};
use serde::{de::DeserializeOwned, Serialize};
use std::fmt::Debug;
use std::panic::{catch_unwind, AssertUnwindSafe};

// Engine-defined instantiations of the public macros (orders / LEN the crate itself does
// not instantiate).
mod mm4 {
    average::define_moments!(M4, 4);
}
pub use mm4::M4;
mod mm5 {
    average::define_moments!(M5, 5);
}
pub use mm5::M5;
mod mm6 {
    average::define_moments!(M6, 6);
}
pub use mm6::M6;
mod mm8 {
    average::define_moments!(M8, 8);
}
pub use mm8::M8;
mod mm10 {
    average::define_moments!(M10, 10);
}
pub use mm10::M10;

average::define_histogram!(h1, 1);
average::define_histogram!(h2, 2);
average::define_histogram!(h3, 3);
average::define_histogram!(h4, 4);
average::define_histogram!(h10, 10);
average::define_histogram!(h100, 100);

#[derive(Clone, Copy, Debug, PartialEq, Eq, Hash, PartialOrd, Ord)]
pub enum Stat {
    Mean,
    PopVar,
    SampleVar,
    VarOfMean,
    Error,
    Skewness,
    Kurtosis,
    Central(u8),
    Standardized(u8),
    SampleSkewness,
    SampleExKurt,
    Estimate,
    Min,
    Max,
    Quantile,
    P,
    // weighted
    WMean,
    SumW,
    SumWSq,
    EffLen,
    VarOfWMean,
    WError,
    UnweightedMean,
    // covariance
    MeanX,
    MeanY,
    SampleVarX,
    PopVarX,
    SampleVarY,
    PopVarY,
    SampleCov,
    PopCov,
    Pearson,
}

impl Stat {
    pub fn name(&self) -> String {
        match self {
            Stat::Central(p) => format!("central_moment({p})"),
            Stat::Standardized(p) => format!("standardized_moment({p})"),
            Stat::Mean => "mean".into(),
            Stat::PopVar => "population_variance".into(),
            Stat::SampleVar => "sample_variance".into(),
            Stat::VarOfMean => "variance_of_mean".into(),
            Stat::Error => "error".into(),
            Stat::Skewness => "skewness".into(),
            Stat::Kurtosis => "kurtosis".into(),
            Stat::SampleSkewness => "sample_skewness".into(),
            Stat::SampleExKurt => "sample_excess_kurtosis".into(),
            Stat::Estimate => "estimate".into(),
            Stat::Min => "min".into(),
            Stat::Max => "max".into(),
            Stat::Quantile => "quantile".into(),
            Stat::P => "p".into(),
            Stat::WMean => "weighted_mean".into(),
            Stat::SumW => "sum_weights".into(),
            Stat::SumWSq => "sum_weights_sq".into(),
            Stat::EffLen => "effective_len".into(),
            Stat::VarOfWMean => "variance_of_weighted_mean".into(),
            Stat::WError => "error".into(),
            Stat::UnweightedMean => "unweighted_mean".into(),
            Stat::MeanX => "mean_x".into(),
            Stat::MeanY => "mean_y".into(),
            Stat::SampleVarX => "sample_variance_x".into(),
            Stat::PopVarX => "population_variance_x".into(),
            Stat::SampleVarY => "sample_variance_y".into(),
            Stat::PopVarY => "population_variance_y".into(),
            Stat::SampleCov => "sample_covariance".into(),
            Stat::PopCov => "population_covariance".into(),
            Stat::Pearson => "pearson".into(),
        }
    }
}

/// One accessor call: value, or the panic message.
#[derive(Clone, Debug, PartialEq)]
pub enum Val {
    F(f64),
    Panic(String),
}

impl Val {
    pub fn bits_eq(&self, o: &Val) -> bool {
        match (self, o) {
            (Val::F(a), Val::F(b)) => (a.is_nan() && b.is_nan()) || a.to_bits() == b.to_bits(),
            (Val::Panic(_), Val::Panic(_)) => true,
            _ => false,
        }
    }
    pub fn show(&self) -> String {
        match self {
            Val::F(x) => format!("{x:?}"),
            Val::Panic(m) => format!("panic({m})"),
        }
    }
}

pub fn panic_msg(e: Box<dyn std::any::Any + Send>) -> String {
    if let Some(s) = e.downcast_ref::<&str>() {
        s.to_string()
    } else if let Some(s) = e.downcast_ref::<String>() {
        s.clone()
    } else {
        "<non-string panic>".into()
    }
}

pub fn guarded<T>(f: impl FnOnce() -> T) -> Result<T, String> {
    catch_unwind(AssertUnwindSafe(f)).map_err(panic_msg)
}

/// Full observation of an estimator: every public accessor, each guarded.
#[derive(Clone, Debug, PartialEq)]
pub struct Obs {
    pub len: Option<Result<u64, String>>,
    pub is_empty: Option<Result<bool, String>>,
    pub vals: Vec<(Stat, Val)>,
}

impl Obs {
    pub fn get(&self, s: Stat) -> Option<&Val> {
        self.vals.iter().find(|(k, _)| *k == s).map(|(_, v)| v)
    }
    /// bit-for-bit equality of every reported statistic (all NaNs equal)
    pub fn bits_eq(&self, o: &Obs) -> bool {
        self.len == o.len
            && self.is_empty == o.is_empty
            && self.vals.len() == o.vals.len()
            && self.vals.iter().zip(o.vals.iter()).all(|(a, b)| a.0 == b.0 && a.1.bits_eq(&b.1))
    }
    pub fn first_diff(&self, o: &Obs) -> String {
        if self.len != o.len {
            return format!("len {:?} vs {:?}", self.len, o.len);
        }
        if self.is_empty != o.is_empty {
            return format!("is_empty {:?} vs {:?}", self.is_empty, o.is_empty);
        }
        for (a, b) in self.vals.iter().zip(o.vals.iter()) {
            if a.0 != b.0 || !a.1.bits_eq(&b.1) {
                return format!("{} {} vs {}", a.0.name(), a.1.show(), b.1.show());
            }
        }
        "no difference".into()
    }
    pub fn fingerprint(&self) -> String {
        let mut s = format!("{:?}|{:?}", self.len, self.is_empty);
        for (k, v) in &self.vals {
            match v {
                Val::F(x) => s.push_str(&format!("|{}={:x}", k.name(), if x.is_nan() { 0x7ff8u64 << 48 } else { x.to_bits() })),
                Val::Panic(_) => s.push_str(&format!("|{}=panic", k.name())),
            }
        }
        s
    }
}

/// Estimators fed one f64 at a time.
pub trait Uni: Clone + Debug + Send + Sync + Serialize + DeserializeOwned + 'static {
    const NAME: &'static str;
    /// highest central moment tracked (0: none)
    const ORDER: usize;
    fn fresh() -> Self;
    fn dflt() -> Self;
    fn add1(&mut self, x: f64);
    fn len_(&self) -> Option<u64>;
    fn is_empty_(&self) -> Option<bool>;
    fn stats() -> Vec<Stat>;
    fn get(&self, s: Stat) -> f64;

    fn observe(&self) -> Obs {
        Obs {
            len: if Self::stats_has_len() { Some(guarded(|| self.len_().unwrap())) } else { None },
            is_empty: if self.is_empty_opt() { Some(guarded(|| self.is_empty_().unwrap())) } else { None },
            vals: Self::stats()
                .into_iter()
                .map(|s| {
                    (s, match guarded(|| self.get(s)) {
                        Ok(v) => Val::F(v),
                        Err(m) => Val::Panic(m),
                    })
                })
                .collect(),
        }
    }
    fn stats_has_len() -> bool {
        true
    }
    fn is_empty_opt(&self) -> bool {
        true
    }
    fn dbg(&self) -> String {
        format!("{:?}", self)
    }
}

pub trait UniMerge: Uni {
    fn merge_(&mut self, o: &Self);
}
pub trait UniIngest: Uni {
    fn collect_vals(xs: &[f64]) -> Self;
    fn collect_refs(xs: &[f64]) -> Self;
    /// None: the type has no Extend impl
    fn extend_vals(&mut self, xs: &[f64]) -> bool;
    fn extend_refs(&mut self, xs: &[f64]) -> bool;
    /// the same four paths fed from an iterator that reports no useful size_hint
    fn collect_vals_opaque(xs: &[f64]) -> Self;
    fn collect_refs_opaque(xs: &[f64]) -> Self;
    fn extend_vals_opaque(&mut self, xs: &[f64]) -> bool;
    fn extend_refs_opaque(&mut self, xs: &[f64]) -> bool;
}

macro_rules! impl_ingest {
    ($t:ty, extend) => {
        impl UniIngest for $t {
            fn collect_vals(xs: &[f64]) -> Self {
                xs.iter().copied().collect()
            }
            fn collect_refs(xs: &[f64]) -> Self {
                xs.iter().collect()
            }
            fn extend_vals(&mut self, xs: &[f64]) -> bool {
                self.extend(xs.iter().copied());
                true
            }
            fn extend_refs(&mut self, xs: &[f64]) -> bool {
                self.extend(xs.iter());
                true
            }
            fn collect_vals_opaque(xs: &[f64]) -> Self {
                xs.iter().copied().filter(|_| true).collect()
            }
            fn collect_refs_opaque(xs: &[f64]) -> Self {
                xs.iter().filter(|_| true).collect()
            }
            fn extend_vals_opaque(&mut self, xs: &[f64]) -> bool {
                self.extend(xs.iter().copied().filter(|_| true));
                true
            }
            fn extend_refs_opaque(&mut self, xs: &[f64]) -> bool {
                self.extend(xs.iter().filter(|_| true));
                true
            }
        }
    };
    ($t:ty, noextend) => {
        impl UniIngest for $t {
            fn collect_vals(xs: &[f64]) -> Self {
                xs.iter().copied().collect()
            }
            fn collect_refs(xs: &[f64]) -> Self {
                xs.iter().collect()
            }
            fn extend_vals(&mut self, _xs: &[f64]) -> bool {
                false
            }
            fn extend_refs(&mut self, _xs: &[f64]) -> bool {
                false
            }
            fn collect_vals_opaque(xs: &[f64]) -> Self {
                xs.iter().copied().filter(|_| true).collect()
            }
            fn collect_refs_opaque(xs: &[f64]) -> Self {
                xs.iter().filter(|_| true).collect()
            }
            fn extend_vals_opaque(&mut self, _xs: &[f64]) -> bool {
                false
            }
            fn extend_refs_opaque(&mut self, _xs: &[f64]) -> bool {
                false
            }
        }
    };
}

macro_rules! impl_merge {
    ($t:ty) => {
        impl UniMerge for $t {
            fn merge_(&mut self, o: &Self) {
                Merge::merge(self, o)
            }
        }
    };
}

impl Uni for average::Mean {
    const NAME: &'static str = "Mean";
    const ORDER: usize = 1;
    fn fresh() -> Self {
        average::Mean::new()
    }
    fn dflt() -> Self {
        Default::default()
    }
    fn add1(&mut self, x: f64) {
        self.add(x)
    }
    fn len_(&self) -> Option<u64> {
        Some(self.len())
    }
    fn is_empty_(&self) -> Option<bool> {
        Some(self.is_empty())
    }
    fn stats() -> Vec<Stat> {
        vec![Stat::Mean, Stat::Estimate]
    }
    fn get(&self, s: Stat) -> f64 {
        match s {
            Stat::Mean => self.mean(),
            Stat::Estimate => self.estimate(),
            _ => unreachable!(),
        }
    }
}
impl_merge!(average::Mean);
impl_ingest!(average::Mean, extend);

impl Uni for average::Variance {
    const NAME: &'static str = "Variance";
    const ORDER: usize = 2;
    fn fresh() -> Self {
        average::Variance::new()
    }
    fn dflt() -> Self {
        Default::default()
    }
    fn add1(&mut self, x: f64) {
        self.add(x)
    }
    fn len_(&self) -> Option<u64> {
        Some(self.len())
    }
    fn is_empty_(&self) -> Option<bool> {
        Some(self.is_empty())
    }
    fn stats() -> Vec<Stat> {
        vec![Stat::Mean, Stat::PopVar, Stat::SampleVar, Stat::VarOfMean, Stat::Error, Stat::Estimate]
    }
    fn get(&self, s: Stat) -> f64 {
        match s {
            Stat::Mean => self.mean(),
            Stat::PopVar => self.population_variance(),
            Stat::SampleVar => self.sample_variance(),
            Stat::VarOfMean => self.variance_of_mean(),
            Stat::Error => self.error(),
            Stat::Estimate => self.estimate(),
            _ => unreachable!(),
        }
    }
}
impl_merge!(average::Variance);
impl_ingest!(average::Variance, extend);

impl Uni for average::Skewness {
    const NAME: &'static str = "Skewness";
    const ORDER: usize = 3;
    fn fresh() -> Self {
        average::Skewness::new()
    }
    fn dflt() -> Self {
        Default::default()
    }
    fn add1(&mut self, x: f64) {
        self.add(x)
    }
    fn len_(&self) -> Option<u64> {
        Some(self.len())
    }
    fn is_empty_(&self) -> Option<bool> {
        Some(self.is_empty())
    }
    fn stats() -> Vec<Stat> {
        vec![Stat::Mean, Stat::PopVar, Stat::SampleVar, Stat::Error, Stat::Skewness, Stat::Estimate]
    }
    fn get(&self, s: Stat) -> f64 {
        match s {
            Stat::Mean => self.mean(),
            Stat::PopVar => self.population_variance(),
            Stat::SampleVar => self.sample_variance(),
            Stat::Error => self.error_mean(),
            Stat::Skewness => self.skewness(),
            Stat::Estimate => self.estimate(),
            _ => unreachable!(),
        }
    }
}
impl_merge!(average::Skewness);
impl_ingest!(average::Skewness, extend);

impl Uni for average::Kurtosis {
    const NAME: &'static str = "Kurtosis";
    const ORDER: usize = 4;
    fn fresh() -> Self {
        average::Kurtosis::new()
    }
    fn dflt() -> Self {
        Default::default()
    }
    fn add1(&mut self, x: f64) {
        self.add(x)
    }
    fn len_(&self) -> Option<u64> {
        Some(self.len())
    }
    fn is_empty_(&self) -> Option<bool> {
        Some(self.is_empty())
    }
    fn stats() -> Vec<Stat> {
        vec![Stat::Mean, Stat::PopVar, Stat::SampleVar, Stat::Error, Stat::Skewness, Stat::Kurtosis, Stat::Estimate]
    }
    fn get(&self, s: Stat) -> f64 {
        match s {
            Stat::Mean => self.mean(),
            Stat::PopVar => self.population_variance(),
            Stat::SampleVar => self.sample_variance(),
            Stat::Error => self.error_mean(),
            Stat::Skewness => self.skewness(),
            Stat::Kurtosis => self.kurtosis(),
            Stat::Estimate => self.estimate(),
            _ => unreachable!(),
        }
    }
}
impl_merge!(average::Kurtosis);
impl_ingest!(average::Kurtosis, extend);

macro_rules! impl_moments {
    ($t:ty, $name:expr, $order:expr) => {
        impl Uni for $t {
            const NAME: &'static str = $name;
            const ORDER: usize = $order;
            fn fresh() -> Self {
                <$t>::new()
            }
            fn dflt() -> Self {
                Default::default()
            }
            fn add1(&mut self, x: f64) {
                self.add(x)
            }
            fn len_(&self) -> Option<u64> {
                Some(self.len())
            }
            fn is_empty_(&self) -> Option<bool> {
                Some(self.is_empty())
            }
            fn stats() -> Vec<Stat> {
                let mut v = vec![Stat::Mean, Stat::SampleVar, Stat::SampleSkewness, Stat::SampleExKurt];
                for p in 0..=$order {
                    v.push(Stat::Central(p as u8));
                }
                for p in 0..=$order {
                    v.push(Stat::Standardized(p as u8));
                }
                v
            }
            fn get(&self, s: Stat) -> f64 {
                match s {
                    Stat::Mean => self.mean(),
                    Stat::SampleVar => self.sample_variance(),
                    Stat::SampleSkewness => self.sample_skewness(),
                    Stat::SampleExKurt => self.sample_excess_kurtosis(),
                    Stat::Central(p) => self.central_moment(p as usize),
                    Stat::Standardized(p) => self.standardized_moment(p as usize),
                    _ => unreachable!(),
                }
            }
        }
        impl_merge!($t);
        impl_ingest!($t, extend);
    };
}
impl_moments!(average::Moments4, "Moments4", 4);
impl_moments!(M4, "M4", 4);
impl_moments!(M5, "M5", 5);
impl_moments!(M6, "M6", 6);
impl_moments!(M8, "M8", 8);
impl_moments!(M10, "M10", 10);

impl Uni for average::Min {
    const NAME: &'static str = "Min";
    const ORDER: usize = 0;
    fn fresh() -> Self {
        average::Min::new()
    }
    fn dflt() -> Self {
        Default::default()
    }
    fn add1(&mut self, x: f64) {
        self.add(x)
    }
    fn len_(&self) -> Option<u64> {
        None
    }
    fn is_empty_(&self) -> Option<bool> {
        None
    }
    fn stats_has_len() -> bool {
        false
    }
    fn is_empty_opt(&self) -> bool {
        false
    }
    fn stats() -> Vec<Stat> {
        vec![Stat::Min, Stat::Estimate]
    }
    fn get(&self, s: Stat) -> f64 {
        match s {
            Stat::Min => self.min(),
            Stat::Estimate => self.estimate(),
            _ => unreachable!(),
        }
    }
}
impl_merge!(average::Min);
impl_ingest!(average::Min, extend);

impl Uni for average::Max {
    const NAME: &'static str = "Max";
    const ORDER: usize = 0;
    fn fresh() -> Self {
        average::Max::new()
    }
    fn dflt() -> Self {
        Default::default()
    }
    fn add1(&mut self, x: f64) {
        self.add(x)
    }
    fn len_(&self) -> Option<u64> {
        None
    }
    fn is_empty_(&self) -> Option<bool> {
        None
    }
    fn stats_has_len() -> bool {
        false
    }
    fn is_empty_opt(&self) -> bool {
        false
    }
    fn stats() -> Vec<Stat> {
        vec![Stat::Max, Stat::Estimate]
    }
    fn get(&self, s: Stat) -> f64 {
        match s {
            Stat::Max => self.max(),
            Stat::Estimate => self.estimate(),
            _ => unreachable!(),
        }
    }
}
impl_merge!(average::Max);
impl_ingest!(average::Max, noextend);

/// Observation helpers for the pair estimators (not `Uni`: they take two arguments).
pub fn observe_wm(e: &average::WeightedMean) -> Obs {
    let f = |g: &dyn Fn() -> f64| match guarded(g) {
        Ok(v) => Val::F(v),
        Err(m) => Val::Panic(m),
    };
    Obs {
        len: None,
        is_empty: Some(guarded(|| e.is_empty())),
        vals: vec![(Stat::WMean, f(&|| e.mean())), (Stat::SumW, f(&|| e.sum_weights()))],
    }
}

pub fn observe_wme(e: &average::WeightedMeanWithError) -> Obs {
    let f = |g: &dyn Fn() -> f64| match guarded(g) {
        Ok(v) => Val::F(v),
        Err(m) => Val::Panic(m),
    };
    Obs {
        len: Some(guarded(|| e.len())),
        is_empty: Some(guarded(|| e.is_empty())),
        vals: vec![
            (Stat::WMean, f(&|| e.weighted_mean())),
            (Stat::UnweightedMean, f(&|| e.unweighted_mean())),
            (Stat::SumW, f(&|| e.sum_weights())),
            (Stat::SumWSq, f(&|| e.sum_weights_sq())),
            (Stat::EffLen, f(&|| e.effective_len())),
            (Stat::PopVar, f(&|| e.population_variance())),
            (Stat::SampleVar, f(&|| e.sample_variance())),
            (Stat::VarOfWMean, f(&|| e.variance_of_weighted_mean())),
            (Stat::WError, f(&|| e.error())),
        ],
    }
}

pub fn observe_cov(e: &average::Covariance) -> Obs {
    let f = |g: &dyn Fn() -> f64| match guarded(g) {
        Ok(v) => Val::F(v),
        Err(m) => Val::Panic(m),
    };
    Obs {
        len: Some(guarded(|| e.len())),
        is_empty: Some(guarded(|| e.is_empty())),
        vals: vec![
            (Stat::MeanX, f(&|| e.mean_x())),
            (Stat::MeanY, f(&|| e.mean_y())),
            (Stat::SampleVarX, f(&|| e.sample_variance_x())),
            (Stat::PopVarX, f(&|| e.population_variance_x())),
            (Stat::SampleVarY, f(&|| e.sample_variance_y())),
            (Stat::PopVarY, f(&|| e.population_variance_y())),
            (Stat::SampleCov, f(&|| e.sample_covariance())),
            (Stat::PopCov, f(&|| e.population_covariance())),
            (Stat::Pearson, f(&|| e.pearson())),
        ],
    }
}

pub fn observe_quantile(e: &average::Quantile) -> Obs {
    let f = |g: &dyn Fn() -> f64| match guarded(g) {
        Ok(v) => Val::F(v),
        Err(m) => Val::Panic(m),
    };
    Obs {
        len: Some(guarded(|| e.len())),
        is_empty: Some(guarded(|| e.is_empty())),
        vals: vec![(Stat::Quantile, f(&|| e.quantile())), (Stat::P, f(&|| e.p())), (Stat::Estimate, f(&|| e.estimate()))],
    }
}

/// Public marker state of a Quantile, read through serde (the only public window on it):
/// five marker heights and five marker positions.
#[derive(Clone, Debug)]
pub struct QMarkers {
    pub q: [f64; 5],
    pub n: [i64; 5],
}

fn five_numbers(v: &serde_json::Value) -> Option<[f64; 5]> {
    let a = v.as_array()?;
    if a.len() != 5 {
        return None;
    }
    let mut out = [0.0; 5];
    for (i, x) in a.iter().enumerate() {
        out[i] = x.as_f64()?;
    }
    Some(out)
}

/// Err: the serialised form does not expose five heights and five positions under the names
/// this reader knows (`q`/`heights`, `n`/`positions`); the marker clauses are then skipped and
/// counted, not reported — a representation change is not a property violation.
pub fn quantile_markers(e: &average::Quantile) -> Result<QMarkers, String> {
    let v = serde_json::to_value(e).map_err(|e| e.to_string())?;
    let q = ["q", "heights", "marker_heights"].iter().find_map(|k| v.get(*k).and_then(five_numbers)).ok_or("no array of five marker heights")?;
    let n = ["n", "positions", "marker_positions"].iter().find_map(|k| v.get(*k).and_then(five_numbers)).ok_or("no array of five marker positions")?;
    let mut ni = [0i64; 5];
    for i in 0..5 {
        if n[i].fract() != 0.0 {
            return Err("non-integer marker position".into());
        }
        ni[i] = n[i] as i64;
    }
    Ok(QMarkers { q, n: ni })
}

// ---------------------------------------------------------------------------------------
// histograms

use average::{Histogram as HistTrait, InvalidRangeError, SampleOutOfRangeError};

pub trait Hist: Clone + Debug + Send + Sync + 'static {
    const LEN: usize;
    const NAME: &'static str;
    fn from_ranges_(v: Vec<f64>) -> Result<Self, InvalidRangeError>;
    fn with_const_width_(a: f64, b: f64) -> Self;
    fn find_(&self, x: f64) -> Result<usize, SampleOutOfRangeError>;
    fn add_(&mut self, x: f64) -> Result<(), SampleOutOfRangeError>;
    fn bins_(&self) -> Vec<u64>;
    fn ranges_(&self) -> Vec<f64>;
    fn range_min_(&self) -> f64;
    fn range_max_(&self) -> f64;
    fn reset_(&mut self);
    fn iter_(&self) -> Vec<((f64, f64), u64)>;
    fn into_iter_(&self) -> Vec<((f64, f64), u64)>;
    /// size_hint() of a fresh iter() and of one advanced past its last item
    fn iter_size_hints_(&self) -> [(usize, Option<usize>); 2];
    fn widths_(&self) -> Vec<f64>;
    fn centers_(&self) -> Vec<f64>;
    fn normalized_(&self) -> Vec<f64>;
    fn variances_(&self) -> Vec<f64>;
    fn variance_(&self, i: usize) -> f64;
    fn merge_(&mut self, o: &Self);
    fn add_assign_(&mut self, o: &Self);
    fn mul_assign_(&mut self, k: u64);
    fn dbg(&self) -> String {
        format!("{:?}", self)
    }
}

macro_rules! impl_hist {
    ($t:ty, $len:expr, $name:expr) => {
        impl Hist for $t {
            const LEN: usize = $len;
            const NAME: &'static str = $name;
            fn from_ranges_(v: Vec<f64>) -> Result<Self, InvalidRangeError> {
                <$t>::from_ranges(v)
            }
            fn with_const_width_(a: f64, b: f64) -> Self {
                <$t>::with_const_width(a, b)
            }
            fn find_(&self, x: f64) -> Result<usize, SampleOutOfRangeError> {
                self.find(x)
            }
            fn add_(&mut self, x: f64) -> Result<(), SampleOutOfRangeError> {
                self.add(x)
            }
            fn bins_(&self) -> Vec<u64> {
                self.bins().to_vec()
            }
            fn ranges_(&self) -> Vec<f64> {
                self.ranges().to_vec()
            }
            fn range_min_(&self) -> f64 {
                self.range_min()
            }
            fn range_max_(&self) -> f64 {
                self.range_max()
            }
            fn reset_(&mut self) {
                self.reset()
            }
            fn iter_(&self) -> Vec<((f64, f64), u64)> {
                self.iter().collect()
            }
            fn iter_size_hints_(&self) -> [(usize, Option<usize>); 2] {
                let fresh = self.iter().size_hint();
                let mut it = self.iter();
                while it.next().is_some() {}
                [fresh, it.size_hint()]
            }
            fn into_iter_(&self) -> Vec<((f64, f64), u64)> {
                self.into_iter().collect()
            }
            fn widths_(&self) -> Vec<f64> {
                self.widths().collect()
            }
            fn centers_(&self) -> Vec<f64> {
                self.centers().collect()
            }
            fn normalized_(&self) -> Vec<f64> {
                self.normalized_bins().collect()
            }
            fn variances_(&self) -> Vec<f64> {
                self.variances().collect()
            }
            fn variance_(&self, i: usize) -> f64 {
                self.variance(i)
            }
            fn merge_(&mut self, o: &Self) {
                Merge::merge(self, o)
            }
            fn add_assign_(&mut self, o: &Self) {
                *self += o;
            }
            fn mul_assign_(&mut self, k: u64) {
                *self *= k;
            }
        }
    };
}
impl_hist!(h1::Histogram, 1, "H1");
impl_hist!(h2::Histogram, 2, "H2");
impl_hist!(h3::Histogram, 3, "H3");
impl_hist!(h4::Histogram, 4, "H4");
impl_hist!(h10::Histogram, 10, "H10");
impl_hist!(h100::Histogram, 100, "H100");
impl_hist!(average::Histogram10, 10, "Histogram10");
pub type H1 = h1::Histogram;
pub type H2 = h2::Histogram;
pub type H3 = h3::Histogram;
pub type H4 = h4::Histogram;
pub type H10 = h10::Histogram;
pub type H100 = h100::Histogram;

// const-generic twin (src/histogram_const.rs), nightly toolchain + `nightly` feature only
#[cfg(feature = "nightly")]
mod const_hist {
    use super::*;
    use average::histogram_const as hc;

    fn conv_range(e: hc::InvalidRangeError) -> InvalidRangeError {
        match e {
            hc::InvalidRangeError::NotEnoughRanges => InvalidRangeError::NotEnoughRanges,
            hc::InvalidRangeError::NotSorted => InvalidRangeError::NotSorted,
            hc::InvalidRangeError::NaN => InvalidRangeError::NaN,
        }
    }

    macro_rules! impl_const_hist {
        ($len:expr, $name:expr) => {
            impl Hist for hc::Histogram<$len> {
                const LEN: usize = $len;
                const NAME: &'static str = $name;
                fn from_ranges_(v: Vec<f64>) -> Result<Self, InvalidRangeError> {
                    hc::Histogram::<$len>::from_ranges(v).map_err(conv_range)
                }
                fn with_const_width_(a: f64, b: f64) -> Self {
                    hc::Histogram::<$len>::with_const_width(a, b)
                }
                fn find_(&self, x: f64) -> Result<usize, SampleOutOfRangeError> {
                    self.find(x).map_err(|_| SampleOutOfRangeError)
                }
                fn add_(&mut self, x: f64) -> Result<(), SampleOutOfRangeError> {
                    self.add(x).map_err(|_| SampleOutOfRangeError)
                }
                fn bins_(&self) -> Vec<u64> {
                    self.bins().to_vec()
                }
                fn ranges_(&self) -> Vec<f64> {
                    self.ranges().to_vec()
                }
                fn range_min_(&self) -> f64 {
                    self.range_min()
                }
                fn range_max_(&self) -> f64 {
                    self.range_max()
                }
                fn reset_(&mut self) {
                    self.reset()
                }
                fn iter_(&self) -> Vec<((f64, f64), u64)> {
                    self.iter().collect()
                }
                fn iter_size_hints_(&self) -> [(usize, Option<usize>); 2] {
                    let fresh = self.iter().size_hint();
                    let mut it = self.iter();
                    while it.next().is_some() {}
                    [fresh, it.size_hint()]
                }
                fn into_iter_(&self) -> Vec<((f64, f64), u64)> {
                    self.into_iter().collect()
                }
                fn widths_(&self) -> Vec<f64> {
                    self.widths().collect()
                }
                fn centers_(&self) -> Vec<f64> {
                    self.centers().collect()
                }
                fn normalized_(&self) -> Vec<f64> {
                    self.normalized_bins().collect()
                }
                fn variances_(&self) -> Vec<f64> {
                    self.variances().collect()
                }
                fn variance_(&self, i: usize) -> f64 {
                    self.variance(i)
                }
                fn merge_(&mut self, o: &Self) {
                    Merge::merge(self, o)
                }
                fn add_assign_(&mut self, o: &Self) {
                    *self += o;
                }
                fn mul_assign_(&mut self, k: u64) {
                    *self *= k;
                }
            }
        };
    }
    impl_const_hist!(1, "ConstH1");
    impl_const_hist!(2, "ConstH2");
    impl_const_hist!(3, "ConstH3");
    impl_const_hist!(4, "ConstH4");
    impl_const_hist!(10, "ConstH10");
    impl_const_hist!(100, "ConstH100");
    pub type K1 = hc::Histogram<1>;
    pub type K2 = hc::Histogram<2>;
    pub type K3 = hc::Histogram<3>;
    pub type K4 = hc::Histogram<4>;
    pub type K10 = hc::Histogram<10>;
    pub type K100 = hc::Histogram<100>;
}
#[cfg(feature = "nightly")]
pub use const_hist::*;
