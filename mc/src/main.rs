#![cfg_attr(feature = "nightly", feature(generic_const_exprs))]
#![cfg_attr(feature = "nightly", allow(incomplete_features))]
mod envelope;
mod exact;
mod explore;
mod props;
mod rayon_seam;
mod sr;
mod refmodels;
mod report;
mod subjects;

use report::{PropReport, Tier};
use std::time::Instant;

fn usage() -> ! {
    eprintln!("usage: avgmc --property <ID> --tier quick|thorough | --property <ID> --replay <file> | --selftest | --list");
    std::process::exit(2)
}

fn main() {
    // The subject's panics are caught and judged; keep stderr quiet.
    std::panic::set_hook(Box::new(|_| {}));
    let args: Vec<String> = std::env::args().collect();
    let mut prop = None;
    let mut tier = match std::env::var("VERIF_TIER").ok().as_deref() {
        Some("thorough") => Tier::Thorough,
        _ => Tier::Quick,
    };
    let mut replay = None;
    let mut only: Option<String> = None;
    let mut secondary: Option<String> = None;
    let mut i = 1;
    while i < args.len() {
        match args[i].as_str() {
            "--property" => {
                prop = args.get(i + 1).cloned();
                i += 1;
            }
            "--tier" => {
                tier = match args.get(i + 1).map(|s| s.as_str()) {
                    Some("quick") => Tier::Quick,
                    Some("thorough") => Tier::Thorough,
                    _ => usage(),
                };
                i += 1;
            }
            "--replay" => {
                replay = args.get(i + 1).cloned();
                i += 1;
            }
            "--secondary" => {
                secondary = args.get(i + 1).cloned();
                i += 1;
            }
            "--only" => {
                only = args.get(i + 1).cloned();
                i += 1;
            }
            "--selftest" => {}
            _ => usage(),
        }
        i += 1;
    }
    if args.iter().any(|a| a == "--selftest") {
        selftest();
        return;
    }
    let seed: i64 = std::env::var("VERIF_SEED").ok().and_then(|s| s.parse().ok()).unwrap_or(0);
    let prop = prop.unwrap_or_else(|| usage());
    if let Some(file) = replay {
        std::process::exit(do_replay(&prop, &file));
    }
    let t0 = Instant::now();
    props::common::THOROUGH.store(tier == Tier::Thorough, std::sync::atomic::Ordering::Relaxed);
    let plan = match props::plan(&prop, tier) {
        Some(p) => p,
        None => {
            println!("ENGINE-ERROR unknown property {prop}");
            std::process::exit(2);
        }
    };
    let _ = report::KNOWN_SIGS.set(report::load_known().findings.keys().filter(|k| k.0 == prop).map(|k| k.1.clone()).collect());
    let mut rep = PropReport::new(&prop, tier, seed);
    rep.secondary = secondary;
    rep.rule = plan.rule.clone();
    rep.assumptions = plan.assumptions.clone();
    let mut extra = serde_json::Map::new();
    use rayon::prelude::*;
    let selected: Vec<&Box<dyn props::common::Check>> = plan.checks.iter().filter(|c| only.as_ref().map(|o| c.name().contains(o.as_str())).unwrap_or(true)).collect();
    // checks are independent; run them concurrently (each also parallelises internally) and
    // report in plan order
    // (thorough tier: a few at a time, to bound peak memory; every check parallelises internally)
    let group = if tier == Tier::Quick { selected.len().max(1) } else { 4 };
    let mut results: Vec<(explore::Stats, serde_json::Value)> = Vec::new();
    for chunk in selected.chunks(group) {
        let part: Vec<(explore::Stats, serde_json::Value)> = chunk.par_iter().map(|c| (c.run(), c.extra())).collect();
        results.extend(part);
    }
    for (c, (st, ex)) in selected.iter().zip(results) {
        eprintln!(
            "[{}] states={} transitions={} depth={}/{} outcomes={} found={} wall={:.1}s{}",
            st.spec,
            st.states,
            st.transitions,
            st.depth_completed,
            st.depth_requested,
            st.outcomes,
            st.found.len(),
            st.wall_s,
            st.capped.as_ref().map(|c| format!(" CAP: {c}")).unwrap_or_default()
        );
        if !ex.is_null() {
            extra.insert(c.name(), ex);
        }
        if let Some(e) = &st.engine_error {
            println!("ENGINE-ERROR {e}");
            std::process::exit(2);
        }
        rep.specs.push(st);
    }
    // determinism of the exploration itself: re-run the cheap checks and require identical counts
    // (the real-rayon conformance part depends on OS scheduling by design and is excluded)
    let mut rerun = 0;
    for (c, st) in selected.iter().zip(rep.specs.iter()) {
        if st.wall_s < 0.3 && !st.spec.contains("real-rayon") && rerun < 40 {
            rerun += 1;
            let again = c.run();
            if again.states != st.states || again.transitions != st.transitions || again.outcomes != st.outcomes || again.found.len() != st.found.len() {
                println!(
                    "ENGINE-ERROR nondeterministic exploration of {}: states {}/{} transitions {}/{} outcomes {}/{}",
                    st.spec, st.states, again.states, st.transitions, again.transitions, st.outcomes, again.outcomes
                );
                std::process::exit(2);
            }
        }
    }
    extra.insert("determinism_reruns_with_identical_counts".into(), serde_json::json!(rerun));
    if rep.specs.is_empty() {
        println!("ENGINE-ERROR no check ran for {prop}");
        std::process::exit(2);
    }
    rep.extra = serde_json::Value::Object(extra);
    let code = rep.finish(t0.elapsed().as_secs_f64());
    std::process::exit(code);
}

fn do_replay(prop: &str, file: &str) -> i32 {
    let txt = match std::fs::read_to_string(file) {
        Ok(t) => t,
        Err(e) => {
            println!("ENGINE-ERROR cannot read {file}: {e}");
            return 2;
        }
    };
    let art: serde_json::Value = match serde_json::from_str(&txt) {
        Ok(v) => v,
        Err(e) => {
            println!("ENGINE-ERROR cannot parse {file}: {e}");
            return 2;
        }
    };
    let name = art["check"].as_str().unwrap_or("");
    let path: Vec<serde_json::Value> = art["path"].as_array().cloned().unwrap_or_default();
    for tier in [Tier::Quick, Tier::Thorough] {
        let plan = match props::plan(prop, tier) {
            Some(p) => p,
            None => {
                println!("ENGINE-ERROR unknown property {prop}");
                return 2;
            }
        };
        for c in &plan.checks {
            if c.name() == name {
                // run twice: the same recorded history must give the same verdict
                let a = c.replay(&path);
                let b = c.replay(&path);
                let (a, b) = match (a, b) {
                    (Ok(a), Ok(b)) => (a, b),
                    (Err(e), _) | (_, Err(e)) => {
                        println!("ENGINE-ERROR replay failed: {e}");
                        return 2;
                    }
                };
                let sa: Vec<_> = a.iter().map(|v| (&v.sig, &v.detail)).collect();
                let sb: Vec<_> = b.iter().map(|v| (&v.sig, &v.detail)).collect();
                if sa != sb {
                    println!("ENGINE-ERROR nondeterministic replay: {sa:?} vs {sb:?}");
                    return 2;
                }
                println!("replay of {file}: {} operations on the real code", path.len());
                if a.is_empty() {
                    println!("no violation on the current tree");
                    return 0;
                }
                for v in &a {
                    println!("  signature={} {}", v.sig, v.detail);
                }
                println!("VIOLATION property={prop} replay={file}");
                return 1;
            }
        }
    }
    println!("ENGINE-ERROR no check named {name:?} for {prop}");
    2
}

/// Dump exact statistics of a few hundred (weighted) multisets as JSON lines; the Python script
/// oracle_selftest.py re-derives every number with fractions.Fraction.
fn selftest() {
    use props::common::alphabet;
    let mut n = 0;
    for a in ["small", "dec", "off9", "off11", "negoff", "mixed", "tail", "ill", "ulp", "den", "huge", "tiny", "large"] {
        let al = alphabet(a);
        for len in 1..=6usize {
            // a deterministic family of index patterns: strides through the alphabet
            for stride in 1..=3usize {
                for start in 0..al.len().min(3) {
                    let xs: Vec<(f64, u64)> = (0..len).map(|i| (al[(start + i * stride) % al.len()], 1 + ((i * 7 + stride) % 3) as u64 * (if len % 2 == 0 { 1 } else { 1000 }))).collect();
                    let order = if a == "huge" { 2 } else { 6 };
                    let ex = exact::ExactStats::new_weighted(&xs, order);
                    let line = serde_json::json!({
                        "xs": xs.iter().map(|p| format!("{:016x}", p.0.to_bits())).collect::<Vec<_>>(),
                        "mult": xs.iter().map(|p| p.1).collect::<Vec<_>>(),
                        "n": ex.n,
                        "mean": ex.mean.dump(),
                        "m": ex.m.iter().map(|r| r.dump()).collect::<Vec<_>>(),
                        "a": ex.a.iter().map(|r| r.dump()).collect::<Vec<_>>(),
                        "diff_probe": format!("{:016x}", ex.mean.abs_diff_f64(xs[0].0).to_bits()),
                    });
                    println!("{line}");
                    n += 1;
                }
            }
        }
    }
    eprintln!("selftest: dumped {n} multisets");
}
